"""C19 - exported OpenQASM describes the same computation as the circuit.

Decided: for the table-defined gate families the text produced by `_qasm_` (interpreted by my
AST evaluator for probe exponents/shifts) - read with the qelib1.inc / stdgates.inc gate
definitions held in the checker - is the gate's matrix up to global phase; every mnemonic in
any `_qasm_` format string exists with that number of parameters and operands; operands are
distinct qubits; angles are printed as half-turns; the version is validated before emitting;
the writer never drops an operation.  Not decided: u3/KAK fallback numerics, register layout,
classical conditions.
"""
from __future__ import annotations

import ast
import itertools
import re

import numpy as np

from ..core import AnalysisError, call_name, dotted
from .. import fdx, fold
from . import c03

I2 = np.eye(2, dtype=complex)
X, Y, Z, H = c03.PX, c03.PY, c03.PZ, c03.HAD


def _rot(p, theta):
    return np.cos(theta / 2) * I2 - 1j * np.sin(theta / 2) * p


S = np.diag([1, 1j])
T = np.diag([1, np.exp(1j * np.pi / 4)])
SX = 0.5 * np.array([[1 + 1j, 1 - 1j], [1 - 1j, 1 + 1j]])
# qelib1.inc / stdgates.inc: name -> (n_params, n_qubits, matrix builder)   [big-endian operand order]
QELIB = {
    'id': (0, 1, lambda: I2), 'x': (0, 1, lambda: X), 'y': (0, 1, lambda: Y), 'z': (0, 1, lambda: Z), 'h': (0, 1, lambda: H),
    's': (0, 1, lambda: S), 'sdg': (0, 1, lambda: S.conj().T), 't': (0, 1, lambda: T), 'tdg': (0, 1, lambda: T.conj().T),
    'sx': (0, 1, lambda: SX), 'sxdg': (0, 1, lambda: SX.conj().T),
    'rx': (1, 1, lambda a: _rot(X, a)), 'ry': (1, 1, lambda a: _rot(Y, a)), 'rz': (1, 1, lambda a: _rot(Z, a)),
    'u3': (3, 1, lambda t, p, l: np.array([[np.cos(t / 2), -np.exp(1j * l) * np.sin(t / 2)], [np.exp(1j * p) * np.sin(t / 2), np.exp(1j * (p + l)) * np.cos(t / 2)]])),
    'u2': (2, 1, lambda p, l: np.array([[1, -np.exp(1j * l)], [np.exp(1j * p), np.exp(1j * (p + l))]]) / np.sqrt(2)), 'u1': (1, 1, lambda a: np.diag([1, np.exp(1j * a)])),
    'cx': (0, 2, lambda: c03._controlled(X)), 'cz': (0, 2, lambda: c03._controlled(Z)), 'cy': (0, 2, lambda: c03._controlled(Y)),
    'ch': (0, 2, lambda: c03._controlled(H)), 'swap': (0, 2, lambda: c03.SWAPM),
    'ccx': (0, 3, lambda: c03._controlled(X, 2)), 'cswap': (0, 3, lambda: c03._controlled(c03.SWAPM)),
    'crz': (1, 2, None), 'cu1': (1, 2, None), 'cu3': (3, 2, None), 'rzz': (1, 2, None),
    'measure': (0, None, None), 'reset': (0, 1, None), 'barrier': (0, None, None),
}
INSTR = re.compile(r'^\s*([a-zA-Z_][\w]*)\s*(?:\(([^)]*)\))?\s*([^;]*);?\s*$')


def _embed(u, operands, n):
    """Embed gate u acting on `operands` (big-endian order as listed) into an n-qubit unitary (q0 most significant)."""
    k = len(operands)
    full = np.zeros((2 ** n, 2 ** n), dtype=complex)
    for i in range(2 ** n):
        bits = [(i >> (n - 1 - q)) & 1 for q in range(n)]
        sub = 0
        for q in operands:
            sub = (sub << 1) | bits[q]
        for sub2 in range(2 ** k):
            amp = u[sub2, sub]
            if amp == 0:
                continue
            nb = list(bits)
            for pos, q in enumerate(operands):
                nb[q] = (sub2 >> (k - 1 - pos)) & 1
            j = 0
            for b in nb:
                j = (j << 1) | b
            full[j, i] += amp
    return full


def _qasm_unitary(text, n):
    u = np.eye(2 ** n, dtype=complex)
    for line in [l for l in text.split('\n') if l.strip()]:
        m = INSTR.match(line)
        if not m:
            raise ValueError(f'unparsable instruction `{line}`')
        name, params, ops = m.group(1), m.group(2), m.group(3)
        if name not in QELIB:
            raise ValueError(f'`{name}` is not a qelib1/stdgates gate')
        np_, nq, build = QELIB[name]
        ps = [float(eval(p, {'pi': np.pi, '__builtins__': {}})) for p in params.split(',')] if params else []
        qs = [int(q.strip()[1:]) for q in ops.split(',') if q.strip()]
        if len(ps) != np_ or (nq is not None and len(qs) != nq):
            raise ValueError(f'`{line.strip()}`: {name} takes {np_} parameter(s) and {nq} qubit(s)')
        if len(set(qs)) != len(qs):
            raise ValueError(f'`{line.strip()}`: repeated operand')
        if build is None:
            raise ValueError(f'`{name}` has no reference matrix in the checker')
        u = _embed(build(*ps), qs, n) @ u
    return u


class _Args:
    pass


def _emit(fn, exponent, shift, n, extra_self=None):
    """Interpret `_qasm_(self, args, qubits)`; returns the emitted text or None."""
    self_obj = {'_exponent': exponent, 'exponent': exponent, '_global_shift': shift, 'global_shift': shift, '_dimension': 2, 'dimension': 2}
    self_obj.update(extra_self or {})

    def fmt(template, *vals):
        def sub(m):
            idx, spec = int(m.group(1)), m.group(2)
            v = vals[idx]
            if spec == 'half_turns':
                return f'pi*{float(v)!r}'
            if spec:
                raise fdx.Unsupported(f'format spec {spec}')
            return str(v)
        return re.sub(r'\{(\d+)(?::(\w+))?\}', sub, template)
    args = {'format': fmt, 'validate_version': lambda *a: None, 'version': '2.0', 'precision': 10}

    def call_hook(call, it):
        s = ast.unparse(call.func)
        if s.endswith('is_parameterized') or s.endswith('_is_parameterized_'):
            return False
        if s == "''.join":
            return ''.join(it.ev(call.args[0]))
        return NotImplemented
    it = fdx.NumInterp({'self': self_obj, 'args': args, 'qubits': tuple(f'q{i}' for i in range(n))}, call_hook=call_hook)
    return it.call(fn)


PROBES = [(1, 0), (0.5, 0), (-0.5, 0), (0.25, 0), (-0.25, 0), (0, 0), (1, -0.5), (0.5, -0.5), (0.3, 0), (0.3, 0.2), (3, 0), (2, 0), (-1, 0), (1.5, 0)]


def run(ctx):
    repo = ctx.repo
    _phased_x_export(ctx, repo)
    _condition_export_covers_fields(ctx, repo)
    _qudit_gates_refused(ctx, repo)
    _identifier_validators_match_whole_string(ctx, repo, 'C19.l')
    ctx.decided += [
        'C19.a emitted QASM of the table-defined gate families == gate matrix up to global phase (probe exponents/shifts; qelib1 semantics held in the checker)',
        'C19.b every mnemonic in every _qasm_ format string exists in qelib1/stdgates with that parameter and operand count; operands distinct; angles printed as half turns',
        'C19.d two-qubit KAK fallback core == exp(i(xXX+yYY+zZZ)) up to phase; classical registers as wide as the widest measurement of their key',
        'C19.c version validated before emitting; the program writer emits, decomposes, falls back or raises for every operation; measurement inversion lines are symmetric',
    ]
    ctx.not_decided += ['QasmUGate angle extraction and the KAK decomposition itself (cirq.linalg)', 'register layout and bit order', 'classical conditions', 'precision of printed angles']

    # ------------------------------------------------------------------ C19.a
    ctx.rule('C19.a', 'semantic agreement: for each class with literal eigen-components and a _qasm_ method, and each probe (exponent, global_shift), '
             'the emitted instruction sequence multiplies (qelib1 definitions) to the gate matrix up to global phase, or the method declines (None)', floor=12, style='FDX')
    targets = []
    for (cq, dim), ref in c03.REFERENCE.items():
        if dim not in (None, 2):
            continue
        targets.append((cq, cq, {}))
    for ax, fam in (('x', 'XPowGate'), ('y', 'YPowGate'), ('z', 'ZPowGate')):
        targets.append((f'cirq.ops.common_gates.R{ax}', f'cirq.ops.common_gates.{fam}', {'fixed_shift': -0.5}))
    for cq, famq, opts in targets:
        ci = repo.cls(cq)
        r = repo.find_method(ci, '_qasm_')
        if r is None or r[0].qual in ('cirq.ops.raw_types.Gate',):
            continue
        fam = repo.cls(famq)
        try:
            comps, _ = c03._components(repo, fam, 2 if (famq, 2) in c03.REFERENCE else None)
        except fold.NotLiteral as ex:
            raise AnalysisError(f'eigen-components of {cq} can no longer be extracted ({ex})')
        n = int(round(np.log2(comps[0][1].shape[0])))
        bad = None
        emitted = 0
        # probe every exponent / shift constant the method itself compares against (and its negation)
        consts = set()
        for cmp_ in [x for x in ast.walk(r[1]) if isinstance(x, ast.Compare)]:
            for side in [cmp_.left] + cmp_.comparators:
                try:
                    v_ = fold.fold(side)
                    if isinstance(v_, (int, float)) and not isinstance(v_, bool):
                        consts.add(float(v_))
                except (fold.NotLiteral, TypeError):
                    pass
        probes = list(PROBES) + [(c_, 0) for c_ in sorted(consts)] + [(-c_, 0) for c_ in sorted(consts)] + \
            [(1, c_) for c_ in sorted(consts)] + [(c_ + 2, 0) for c_ in sorted(consts)]
        for e, s in probes:
            if 'fixed_shift' in opts:
                s = opts['fixed_shift']
            try:
                text = _emit(r[1], e, s, n)
            except (fdx.Unsupported, fdx.Raised) as ex:
                raise AnalysisError(f'cannot interpret {cq}._qasm_: {ex}')
            if text is None:
                continue
            emitted += 1
            try:
                v = _qasm_unitary(text, n)
            except ValueError as ex:
                bad = bad or f'exponent={e}, shift={s}: {ex}'
                continue
            u = sum(np.exp(1j * np.pi * e * (t + s)) * m for t, m in comps)
            ov = abs(np.trace(u.conj().T @ v)) / (2 ** n)
            if abs(ov - 1) > 1e-9:
                bad = bad or f'at exponent={e}, global_shift={s} the emitted `{text.strip().replace(chr(10), " ")}` is not the gate (overlap {ov:.4f})'
        if emitted == 0:
            bad = bad or 'declines every probe exponent'
        ctx.ob('C19.a', f'{cq}._qasm_', bad is None, bad or '', r[0].mod.rel, r[1].lineno)

    # controlled single-qubit gates: class -> controlled mnemonic
    co = repo.cls('cirq.ops.controlled_operation.ControlledOperation')
    cq_ = co.methods.get('_qasm_')
    if cq_ is None:
        raise AnalysisError('ControlledOperation._qasm_ vanished')
    from .. import chains
    WANTC = {'XPowGate': 'cx', 'YPowGate': 'cy', 'ZPowGate': 'cz', 'HPowGate': 'ch'}
    start = chains.longest_chain(cq_, lambda t: chains.isinstance_classes(t) is not None)
    gotc = {}
    if start is not None:
        for test, body in chains.if_chain(start):
            if test is None:
                continue
            cn = (dotted(chains.isinstance_classes(test)[0]) or '').split('.')[-1]
            lits = [c.value for st in body for c in ast.walk(st) if isinstance(c, ast.Constant) and isinstance(c.value, str)]
            gotc[cn] = lits[0].split()[0] if lits else None
    okc = bool(gotc) and all(WANTC.get(k) == v for k, v in gotc.items())
    ctx.ob('C19.a', f'{co.qual}._qasm_:controlled-mnemonics', okc, '' if okc else f'controlled-gate mnemonics {gotc} differ from {WANTC}', co.mod.rel, cq_.lineno)
    from ..flow import dominating_atoms as _da
    if start is not None:
        atoms = ' '.join(ast.unparse(a) for a, pol in _da(co.mod.parents(), start, cq_) if pol)
        okg = 'exponent == 1' in atoms and 'global_shift == 0' in atoms and 'len(self._controls) == 1' in atoms and 'ProductOfSums(((1,),))' in atoms
        ctx.ob('C19.a', f'{co.qual}._qasm_:guards', okg, '' if okg else 'the cx/cy/cz/ch short-cut is not restricted to exponent 1, zero global shift and a single control on |1>', co.mod.rel, cq_.lineno)

    # ------------------------------------------------------------------ C19.d
    ctx.rule('C19.d', 'fallbacks and registers (finite-domain interpretation): the sequence emitted by QasmTwoQubitGate._decompose_ for KAK coefficients (x,y,z) and local factors '
             '(identity and generic SU(2), incl. vanishing interaction) equals after . exp(i(x XX + y YY + z ZZ)) . before up to global phase; _generate_cregs declares for every key the width of its widest measurement', floor=2, style='FDX')
    from . import decomp
    qt = repo.cls('cirq.circuits.qasm_output.QasmTwoQubitGate')
    dfn = qt.methods.get('_decompose_')
    if dfn is None:
        raise AnalysisError('QasmTwoQubitGate._decompose_ vanished')
    XX_, YY_, ZZ_ = np.kron(X, X), np.kron(Y, Y), np.kron(Z, Z)
    bad = None
    def _su2(a_, b_, c_):
        return _rot(Z, a_) @ _rot(Y, b_) @ _rot(Z, c_)
    LOCALS = {'identity': (np.eye(2), np.eye(2), np.eye(2), np.eye(2)),
              'generic': (_su2(0.3, 1.1, -0.4), _su2(-0.9, 0.5, 0.2), _su2(1.3, 0.7, 0.6), _su2(0.1, -1.2, 0.8))}
    for xyz, loc in [((0.3, 0.2, 0.1), 'identity'), ((0.7, 0.1, -0.05), 'identity'), ((0.25, 0.25, 0.0), 'identity'), ((0.6, 0.0, 0.0), 'identity'), ((0.2, -0.15, 0.33), 'identity'),
                     ((0.3, 0.2, 0.1), 'generic'), ((0.0, 0.0, 0.0), 'generic'), ((1e-12, 0.0, 0.0), 'generic'), ((0.6, 0.0, 0.0), 'generic')]:
        b0_, b1_, a0_, a1_ = LOCALS[loc]
        kak = {'interaction_coefficients': xyz, 'single_qubit_operations_before': (b0_, b1_), 'single_qubit_operations_after': (a0_, a1_), 'global_phase': 1}
        self_obj = {'kak': kak}
        attr_hook, call_hook, name_lookup = decomp.make_env_hooks(repo, qt, dfn, self_obj)

        def call2(call, it, call_hook=call_hook):
            s_ = ast.unparse(call.func)
            if s_.endswith('from_matrix'):
                return decomp.GateV(None, kind='matrix', coefficient=np.asarray(it.ev(call.args[0]), dtype=complex), n=1)
            return call_hook(call, it)
        it = decomp.GenInterp({'self': self_obj, 'qubits': (decomp.Q(0), decomp.Q(1))}, call_hook=call2, attr_hook=attr_hook)
        base_ev = it.ev

        def ev(node, it=it, base_ev=base_ev, name_lookup=name_lookup):
            if isinstance(node, ast.Name) and node.id not in it.env and node.id not in it.builtins:
                g = name_lookup(node.id)
                if g is not NotImplemented:
                    return g
            return base_ev(node)
        it.ev = ev
        base_attr = it.attr_hook

        def attr2(node, itp, base_attr=base_attr):
            r_ = base_attr(node, itp)
            if r_ is not NotImplemented:
                return r_
            try:
                v_ = itp.ev(node.value)
            except fdx.Unsupported:
                return NotImplemented
            if isinstance(v_, (decomp.GateV, decomp.OpV, decomp.Q)) and hasattr(v_, node.attr):
                return getattr(v_, node.attr)
            return NotImplemented
        it.attr_hook = attr2
        try:
            it.call(dfn)
        except (fdx.Unsupported, fdx.Raised) as ex:
            raise AnalysisError(f'cannot interpret QasmTwoQubitGate._decompose_: {ex}')
        ops_ = []
        decomp._flatten(it.out, ops_)
        cache = {}
        u = np.eye(4, dtype=complex)
        for op in ops_:
            mtx = decomp.gate_matrix(repo, cache, op.gate)
            if op.gate.kind == 'identity':
                continue
            u = _embed(mtx, [q.idx for q in op.qubits], 2) @ u
        from scipy.linalg import expm
        want = np.kron(a0_, a1_) @ expm(1j * (xyz[0] * XX_ + xyz[1] * YY_ + xyz[2] * ZZ_)) @ np.kron(b0_, b1_)
        ov = abs(np.trace(want.conj().T @ u)) / 4
        if abs(ov - 1) > 1e-8:
            bad = bad or f'for KAK coefficients {xyz} and {loc} local factors the emitted sequence is not after . exp(i(xXX+yYY+zZZ)) . before (overlap {ov:.4f})'
    ctx.ob('C19.d', f'{qt.qual}._decompose_:kak-core', bad is None, bad or '', qt.mod.rel, dfn.lineno)
    qo_ = repo.cls('cirq.circuits.qasm_output.QasmOutput')
    gc = qo_.methods.get('_generate_cregs')
    if gc is None:
        raise AnalysisError('QasmOutput._generate_cregs vanished')
    bad = None
    for widths in ((2, 1), (1, 2), (2, 1, 3), (3, 3, 1), (1,), (2, 3, 2)):
        meas = [{'qubits': list(range(w)), 'key': 'k'} for w in widths]
        self_obj = {'measurements': meas, 'meas_comments': {'k': None}}

        def hook(call, it):
            if ast.unparse(call.func).endswith('measurement_key_name'):
                return it.ev(call.args[0])['key']
            return NotImplemented
        it = fdx.NumInterp({'self': self_obj, 'meas_key_id_map': {'k': 'm_k'}}, call_hook=hook)
        try:
            res = it.call(gc)
        except (fdx.Unsupported, fdx.Raised) as ex:
            raise AnalysisError(f'cannot interpret QasmOutput._generate_cregs: {ex}')
        got = res.get('m_k', (None,))[0]
        if got != max(widths):
            bad = bad or f'measurements of widths {widths} under one key declare a register of {got} bit(s)'
    ctx.ob('C19.d', f'{qo_.qual}._generate_cregs:max-width', bad is None, bad or '', qo_.mod.rel, gc.lineno)

    # ------------------------------------------------------------------ C19.b
    ctx.rule('C19.b', 'vocabulary: every instruction in a literal format string passed to args.format inside any _qasm_ method uses a qelib1/stdgates '
             'mnemonic with the right number of parameters and operands; operand placeholders are pairwise distinct; angle placeholders use :half_turns', floor=30, style='TBL')
    n_fmt = 0
    for ci in sorted(repo.classes.values(), key=lambda c: c.qual):
        if '.testing.' in ci.qual or '.contrib.' in ci.qual:
            continue
        fn = ci.methods.get('_qasm_')
        if fn is None:
            continue
        for c in ast.walk(fn):
            if isinstance(c, ast.Call) and isinstance(c.func, ast.Attribute) and c.func.attr == 'format' and c.args and \
                    isinstance(c.args[0], ast.Constant) and isinstance(c.args[0].value, str) and isinstance(c.func.value, ast.Name):
                tmpl = c.args[0].value
                for line in [l.split('//')[0] for l in tmpl.split('\n') if l.split('//')[0].strip()]:
                    if 'measure' in line:
                        continue
                    n_fmt += 1
                    key = f'{ci.qual}._qasm_:`{line.strip()}`'
                    probe = re.sub(r'\{(\d+)(?::(\w+))?\}', lambda m: ('pi*0.5' if m.group(2) else f'q{m.group(1)}'), line)
                    m = INSTR.match(probe)
                    ok, msg = True, ''
                    if not m:
                        ok, msg = False, 'instruction does not parse'
                    else:
                        name, params, ops = m.group(1), m.group(2), m.group(3)
                        if name in ('measure',) or '->' in line or name in ('if', 'bit', 'qubit', 'creg', 'qreg'):
                            continue
                        if name not in QELIB:
                            ok, msg = False, f'`{name}` is not a gate of qelib1.inc / stdgates.inc'
                        else:
                            np_, nq, _ = QELIB[name]
                            ps = [p for p in (params.split(',') if params else []) if p.strip()]
                            qs = [q.strip() for q in ops.split(',') if q.strip()]
                            if len(ps) != np_:
                                ok, msg = False, f'`{name}` takes {np_} parameter(s), {len(ps)} given'
                            elif nq is not None and len(qs) != nq:
                                ok, msg = False, f'`{name}` takes {nq} qubit operand(s), {len(qs)} given'
                            elif len(set(qs)) != len(qs):
                                ok, msg = False, 'the same operand placeholder is used twice'
                            else:
                                raw_params = re.findall(r'\(([^)]*)\)', line)
                                if raw_params and any(':half_turns' not in p for p in raw_params[0].split(',')):
                                    ok, msg = False, 'an angle placeholder is not printed with :half_turns'
                                # placeholders bound to distinct qubits[i]
                                idxs = [int(i) for i in re.findall(r'\{(\d+)\}', line)]
                                bound = [ast.unparse(c.args[1 + i]) for i in idxs if 1 + i < len(c.args)]
                                if len(set(bound)) != len(bound):
                                    ok, msg = False, f'operand placeholders are bound to the same qubit expression {bound}'
                    ctx.ob('C19.b', key, ok, msg, ci.mod.rel, c.lineno)

    for ci in sorted(repo.classes.values(), key=lambda c: c.qual):
        fn = ci.methods.get('_qasm_')
        if fn is None or '.testing.' in ci.qual or '.contrib.' in ci.qual:
            continue
        for n in ast.walk(fn):
            if isinstance(n, ast.Assign) and isinstance(n.value, ast.Constant) and isinstance(n.value.value, str) and re.match(r'^[a-z]\w* \{0\}', n.value.value):
                line = n.value.value.strip()
                if line.split(' ')[0] in ('measure', 'reset', 'barrier'):
                    continue   # language statements, not library gates (the measure statement is decided by interpretation under C19.h)
                probe = re.sub(r'\{(\d+)(?::(\w+))?\}', lambda m: ('pi*0.5' if m.group(2) else f'q{m.group(1)}'), line)
                m = INSTR.match(probe)
                ok = bool(m) and m.group(1) in QELIB and QELIB[m.group(1)][1] == len([q for q in m.group(3).split(',') if q.strip()])
                ctx.ob('C19.b', f'{ci.qual}._qasm_:`{line}`', ok, '' if ok else 'not a qelib1/stdgates instruction with that arity', ci.mod.rel, n.lineno)

    # ------------------------------------------------------------------ C19.c
    ctx.rule('C19.c', 'every _qasm_ that formats output calls args.validate_version first; QasmOutput._write_operations handles each operation by '
             'emitting, decomposing or raising', floor=15, style='MPT')
    for ci in sorted(repo.classes.values(), key=lambda c: c.qual):
        if '.testing.' in ci.qual or '.contrib.' in ci.qual:
            continue
        fn = ci.methods.get('_qasm_')
        if fn is None:
            continue
        fmts = [c for c in ast.walk(fn) if isinstance(c, ast.Call) and isinstance(c.func, ast.Attribute) and c.func.attr == 'format'
                and isinstance(c.func.value, ast.Name) and c.func.value.id == 'args']
        if not fmts:
            continue
        vv = [c for c in ast.walk(fn) if isinstance(c, ast.Call) and isinstance(c.func, ast.Attribute) and c.func.attr == 'validate_version']
        if not vv:
            continue  # mnemonics common to every supported version need no validation
        ok = min(v.lineno for v in vv) < min(f.lineno for f in fmts)
        ctx.ob('C19.c', f'{ci.qual}._qasm_:validate-version-first', ok, '' if ok else 'formats QASM before validating the requested version', ci.mod.rel, fn.lineno)
    qo = repo.cls('cirq.circuits.qasm_output.QasmOutput')
    wo = qo.methods.get('_write_operations')
    if wo is None:
        raise AnalysisError('QasmOutput._write_operations vanished')
    src = ast.unparse(wo)
    ok = 'decompose' in src and ('raise' in src or 'on_stuck_raise' in src) and 'qasm(' in src.replace('protocols.qasm', 'qasm')
    ctx.ob('C19.c', f'{qo.qual}._write_operations:no-op-dropped', ok, '' if ok else 'the program writer no longer (emits | decomposes | raises) for every operation', qo.mod.rel, wo.lineno)
    # (that MeasurementGate._qasm_ wraps exactly the inverted positions in x statements is decided by interpretation: C19.h bit-position obligations)
    _entry_point_rules(ctx, repo)
    _phased_xz_qasm(ctx, repo)
    _conditional_lines(ctx, repo)
    _sympy_condition_bits(ctx, repo)
    _measure_bit_positions(ctx, repo)


def _entry_point_rules(ctx, repo):
    """C19.e / C19.a(QasmUGate)"""
    ctx.decided.append('C19.e every QASM entry point of a circuit (to_qasm, save_qasm, _to_qasm_output) uses each of its parameters - a qubit order, precision or header that is '
                       'accepted but not handed on silently produces the default; QasmUGate (the fallback every unknown one-qubit unitary goes through) emits its own angles')
    ctx.rule('C19.e', 'entry points hand on their arguments: each parameter of AbstractCircuit.to_qasm / save_qasm / _to_qasm_output and of QasmOutput.__init__ is read in the body', floor=12, style='EFF')
    ac = repo.cls('cirq.circuits.circuit.AbstractCircuit')
    qo = repo.cls('cirq.circuits.qasm_output.QasmOutput')
    for ci, mn in ((ac, 'to_qasm'), (ac, 'save_qasm'), (ac, '_to_qasm_output'), (qo, '__init__')):
        fn = ci.methods.get(mn)
        if fn is None:
            raise AnalysisError(f'{ci.qual}.{mn} vanished')
        used = {n.id for st in fn.body for n in ast.walk(st) if isinstance(n, ast.Name)}
        for a in fn.args.args[1:] + fn.args.kwonlyargs:
            ok = a.arg in used
            ctx.ob('C19.e', f'{ci.qual}.{mn}:{a.arg}', ok, '' if ok else f'{mn} accepts `{a.arg}` and never looks at it: the written program uses the default instead of what the caller asked for',
                   ci.mod.rel, fn.lineno)
    # QasmUGate: u3(theta, phi, lmda) in half turns
    ug = repo.cls('cirq.circuits.qasm_output.QasmUGate')
    fn = ug.methods.get('_qasm_')
    if fn is None:
        raise AnalysisError('QasmUGate._qasm_ vanished')

    def u3(t, p, l):
        t, p, l = np.pi * t, np.pi * p, np.pi * l
        return np.array([[np.cos(t / 2), -np.exp(1j * l) * np.sin(t / 2)], [np.exp(1j * p) * np.sin(t / 2), np.exp(1j * (p + l)) * np.cos(t / 2)]])
    bad = None
    for t, p, l in ((0.3, 0.2, 0.1), (0, 0.4, 0.3), (0, 0, 0.5), (1, 0.25, 0), (0, 1.5, 0.5), (0.5, 0, 0), (0, 0.7, 0)):
        try:
            text = _emit(fn, 1, 0, 1, extra_self={'theta': t, 'phi': p, 'lmda': l})
        except (fdx.Unsupported, fdx.Raised) as ex:
            raise AnalysisError(f'cannot interpret QasmUGate._qasm_: {ex}')
        try:
            v = _qasm_unitary(text, 1)
        except ValueError as ex:
            bad = bad or f'(theta, phi, lmda)=({t},{p},{l}): {ex}'
            continue
        u = u3(t, p, l)
        ov = abs(np.trace(u.conj().T @ v)) / 2
        if abs(ov - 1) > 1e-9:
            bad = bad or f'QasmUGate(theta={t}, phi={p}, lmda={l}) is written as `{text.strip()}`, which is a different rotation (overlap {ov:.4f})'
    ctx.ob('C19.a', f'{ug.qual}._qasm_', bad is None, bad or '', ug.mod.rel, fn.lineno)


class _PXZ:
    """Model of a PhasedXZGate: Z^z Z^a X^x Z^-a."""
    def __init__(self, x, z, a):
        self._x_exponent = self.x_exponent = x
        self._z_exponent = self.z_exponent = z
        self._axis_phase_exponent = self.axis_phase_exponent = a

    def matrix(self):
        def zp(t):
            return np.diag([1, np.exp(1j * np.pi * t)])

        def xp(t):
            return (np.eye(2) + X) / 2 + np.exp(1j * np.pi * t) * (np.eye(2) - X) / 2
        return zp(self._z_exponent) @ zp(self._axis_phase_exponent) @ xp(self._x_exponent) @ zp(-self._axis_phase_exponent)


def pxz_interp(repo, fn, gate, capture):
    """Interpret a PhasedXZGate method on a model gate; QasmUGate(...) calls are captured, other self-methods are interpreted recursively."""
    ci = repo.cls('cirq.ops.phased_x_z_gate.PhasedXZGate')

    def attr_hook(node, it):
        try:
            v = it.ev(node.value)
        except fdx.Unsupported:
            return NotImplemented
        if isinstance(v, _PXZ) and node.attr in vars(v):
            return getattr(v, node.attr)
        return NotImplemented

    def call_hook(call, it):
        s = ast.unparse(call.func)
        last = s.split('.')[-1]
        if last == 'QasmUGate':
            kw = {k.arg: it.ev(k.value) for k in call.keywords}
            pos = [it.ev(a) for a in call.args]
            for name, v in zip(('theta', 'phi', 'lmda'), pos):
                kw[name] = v
            capture.append(kw)
            return ('U', kw)
        if s in ('protocols.qasm', 'cirq.qasm', 'qasm'):
            return it.ev(call.args[0])
        if last == 'PhasedXZGate' or s == 'cls':
            kw = {k.arg: it.ev(k.value) for k in call.keywords}
            pos = [it.ev(a) for a in call.args]
            for name, v in zip(('x_exponent', 'z_exponent', 'axis_phase_exponent'), pos):
                kw[name] = v
            return _PXZ(kw['x_exponent'], kw['z_exponent'], kw['axis_phase_exponent'])
        if s == 'isinstance':
            v = it.ev(call.args[0])
            t = ast.unparse(call.args[1])
            if 'sympy' in t:
                return False
            return NotImplemented
        if isinstance(call.func, ast.Attribute):
            try:
                recv = it.ev(call.func.value)
            except fdx.Unsupported:
                return NotImplemented
            if isinstance(recv, _PXZ):
                found = repo.find_method(ci, call.func.attr)
                if found is None:
                    raise fdx.Unsupported(f'unknown method {call.func.attr}')
                return pxz_interp(repo, found[1], recv, capture)
        return NotImplemented
    params = [a.arg for a in fn.args.args]
    env = {params[0]: gate}
    for p in params[1:]:
        env[p] = ('q',) if p == 'qubits' else None
    it = fdx.NumInterp(env, call_hook=call_hook, attr_hook=attr_hook)
    it.builtins.update({'float': float, 'abs': abs, 'int': int, 'round': round})
    return it.call(fn)


PXZ_PROBES = [(x, z, a) for x in (0.3, 1, -1, 0, 1.5, -0.4, 2, 3) for z in (0, 0.5, -0.25, 1) for a in (0, 0.25, -0.7)]


def _phased_xz_qasm(ctx, repo):
    ctx.decided.append('C19.f PhasedXZGate._qasm_ (the form every merged one-qubit gate is exported in): the u3 angles it hands to QasmUGate multiply to Z^z Z^a X^x Z^-a up to global phase '
                       'for a grid of (x, z, a) including x = +-1, where canonicalisation folds z into a')
    ctx.rule('C19.f', 'PhasedXZGate export: interpreting _qasm_ (and any method of the class it calls) on model gates, u3(pi*theta, pi*phi, pi*lmda) of the captured QasmUGate arguments '
             'equals the gate matrix up to global phase for each of the probe triples', floor=60, style='FDX')
    ci = repo.cls('cirq.ops.phased_x_z_gate.PhasedXZGate')
    fn = repo.method(ci.qual, '_qasm_')
    for x, z, a in PXZ_PROBES:
        g = _PXZ(x, z, a)
        cap = []
        try:
            pxz_interp(repo, fn, g, cap)
        except (fdx.Unsupported, fdx.Raised) as ex:
            raise AnalysisError(f'cannot interpret PhasedXZGate._qasm_: {ex}')
        if len(cap) != 1:
            raise AnalysisError('PhasedXZGate._qasm_ no longer builds exactly one QasmUGate')
        th, ph, lm = (cap[0][k] * np.pi for k in ('theta', 'phi', 'lmda'))
        u3 = np.array([[np.cos(th / 2), -np.exp(1j * lm) * np.sin(th / 2)], [np.exp(1j * ph) * np.sin(th / 2), np.exp(1j * (ph + lm)) * np.cos(th / 2)]])
        ov = abs(np.trace(g.matrix().conj().T @ u3)) / 2
        ok = abs(ov - 1) < 1e-9
        ctx.ob('C19.f', f'{ci.qual}._qasm_:x={x}:z={z}:a={a}', ok, '' if ok else
               f'PhasedXZGate(x={x}, z={z}, a={a}) is exported as u3(pi*{cap[0]["theta"]:g}, pi*{cap[0]["phi"]:g}, pi*{cap[0]["lmda"]:g}), a different rotation (overlap {ov:.4f})', ci.mod.rel, fn.lineno)


def _conditional_lines(ctx, repo):
    """C19.g - every statement a classically controlled operation emits carries the condition (all sibling implementations)."""
    ctx.decided.append('C19.g every class of cirq.ops whose _qasm_ writes an `if (...)` prefix (ClassicallyControlledOperation, If): each statement of the sub-operation\'s export is guarded by '
                       'the condition (interpreted for exports of 0, 1 and 3 statements); an `if` guards one statement only')
    ctx.rule('C19.g', 'condition on every statement: interpreting the _qasm_ of each such class with one condition c and a sub-operation whose export has k = 0, 1, 3 statements, the result '
             'has exactly k non-empty lines and each of them starts with `if (c) `', floor=6, style='FDX')
    targets = []
    for ci in sorted(repo.classes.values(), key=lambda c: c.qual):
        if not ci.qual.startswith('cirq.ops.') or ci.mod.rel.endswith('_test.py'):
            continue
        fn = ci.methods.get('_qasm_')
        if fn is None:
            continue
        lits = [c.value for c in ast.walk(fn) if isinstance(c, ast.Constant) and isinstance(c.value, str)]
        if any(l.lstrip().startswith('if (') for l in lits):
            targets.append((ci, fn))
    if len(targets) < 2:
        raise AnalysisError(f'C19.g: expected ClassicallyControlledOperation and If, found {[c.name for c, _ in targets]}')

    class A:
        version = '2.0'

        def validate_version(self, *a):
            return None
    for ci, fn in targets:
        for k, sub in ((0, ''), (1, 'x q[0];\n'), (3, 'h q[2];\nccx q[0],q[1],q[2];\nh q[2];\n')):
            def call_hook(call, it, sub=sub):
                s = ast.unparse(call.func)
                if s.endswith('qasm'):
                    arg0 = ast.unparse(call.args[0]) if call.args else ''
                    return sub if 'sub_operation' in arg0 else 'c'
                if s.endswith('QasmArgs'):
                    return A()
                return NotImplemented

            def attr_hook(node, it):
                if isinstance(node.value, ast.Name) and node.value.id == 'self':
                    if node.attr in ('_conditions', 'classical_controls'):
                        return ('COND',)
                    if node.attr in ('_sub_operation',):
                        return 'SUBOP'
                try:
                    v = it.ev(node.value)
                except fdx.Unsupported:
                    return NotImplemented
                if isinstance(v, A) and hasattr(v, node.attr):
                    return getattr(v, node.attr)
                return NotImplemented
            env = {}
            for a in fn.args.args + fn.args.kwonlyargs:
                env[a.arg] = 'SELF' if a.arg == 'self' else A() if a.arg == 'args' else None
            it = fdx.NumInterp(env, call_hook=call_hook, attr_hook=attr_hook)
            it.builtins.update({'len': len, 'str': str})
            try:
                out = it.call(fn)
            except (fdx.Unsupported, fdx.Raised) as ex:
                raise AnalysisError(f'cannot interpret {ci.name}._qasm_: {ex}')
            lines = [l for l in (out or '').splitlines() if l.strip()]
            ok = len(lines) == k and all(l.startswith('if (c) ') for l in lines)
            ctx.ob('C19.g', f'{ci.qual}._qasm_:statements={k}', ok, '' if ok else
                   f'a sub-operation exported as {k} statement(s) {sub!r} yields {out!r}: ' + ('statements after the first run unconditionally' if k > 1 else
                                                                                              'a dangling `if` captures whatever statement follows' if k == 0 else 'the condition is lost'),
                   ci.mod.rel, fn.lineno)

def _sympy_condition_bits(ctx, repo):
    """C19.h - `key == constant` conditions compare the same bits in QASM as in Cirq."""
    ctx.decided.append('C19.h SympyCondition export: for a register of n bits written as measure q[i] -> m_key[i], the constant in `m_key==w` has bit i (little-endian) equal to the i-th '
                       'big-endian bit of the Cirq constant, for every constant of every width 1..3')
    ctx.rule('C19.h', 'condition constant in register bit order: interpreting SympyCondition._qasm_ (and the qasm property it uses) for key a, widths n = 1..3 and every v < 2**n, the emitted '
             'constant w satisfies (w >> i) & 1 == i-th most significant of the n bits of v', floor=14, style='FDX')
    ci = repo.cls('cirq.value.condition.SympyCondition')
    found = repo.find_method(ci, '_qasm_')
    if found is None:
        raise AnalysisError('SympyCondition._qasm_ vanished')
    fn = found[1]
    prop = ci.methods.get('qasm')

    class Sym:
        def __init__(self, name):
            self.name = name

        def __str__(self):
            return self.name

        def __format__(self, spec):
            return self.name

    class Int(int):
        pass

    class Eq:
        def __init__(self, lhs, rhs):
            self.lhs, self.rhs = lhs, rhs

    class Args:
        def __init__(self, n, reg='m_a'):
            self.meas_key_bitcount = {reg: n}
            self.meas_key_id_map = {'a': reg}
            self.version = '2.0'

        def validate_version(self, *a):
            return None

    class Me:
        pass
    # the register of key `a` is whatever the output assigned to it: the default m_a, or a generated name (keys that are not identifiers)
    for reg, n, v in [(r_, n_, v_) for r_ in ('m_a', 'm0') for n_ in (1, 2, 3) for v_ in range(2 ** n_)]:
        if True:
            me = Me()
            me.expr = Eq(Sym('a'), Int(v))

            def attr_hook(node, it):
                try:
                    o = it.ev(node.value)
                except fdx.Unsupported:
                    return NotImplemented
                if isinstance(o, Me) and node.attr == 'qasm' and prop is not None:
                    sub = fdx.NumInterp({'self': o}, call_hook=call_hook, attr_hook=attr_hook)
                    sub.builtins.update({'int': int, 'str': str, 'format': format})
                    return sub.call(prop)
                if isinstance(o, (Me, Eq, Args, Sym)) and hasattr(o, node.attr):
                    return getattr(o, node.attr)
                return NotImplemented

            def call_hook(call, it):
                if ast.unparse(call.func) == 'isinstance':
                    t = ast.unparse(call.args[1])
                    o = it.ev(call.args[0])
                    if 'Equality' in t or t.endswith('.Eq'):
                        return isinstance(o, Eq)
                    if 'Symbol' in t:
                        return isinstance(o, Sym)
                    if 'Integer' in t:
                        return isinstance(o, Int)
                return NotImplemented
            params = [a.arg for a in fn.args.args]
            it = fdx.NumInterp({params[0]: me, params[1]: Args(n, reg)}, call_hook=call_hook, attr_hook=attr_hook)
            it.builtins.update({'int': int, 'str': str, 'format': format})
            try:
                out = it.call(fn)
            except (fdx.Unsupported, fdx.Raised) as ex:
                raise AnalysisError(f'cannot interpret SympyCondition._qasm_: {ex}')
            mt = re.fullmatch(re.escape(reg) + r'==(\d+)', out or '')
            ok = False
            if mt:
                w = int(mt.group(1))
                ok = all(((w >> i) & 1) == ((v >> (n - 1 - i)) & 1) for i in range(n))
            ctx.ob('C19.h', f'{ci.qual}._qasm_:register={reg}:bits={n}:value={v}', ok, '' if ok else
                   f'a == {v} on a {n}-bit key held in register {reg} (Cirq: first measured qubit is the most significant bit) is exported as `{out}`; with measure q[i] -> {reg}[i] a QASM '
                   'reader compares another register or other bits than Cirq does', ci.mod.rel, fn.lineno)


def _measure_bit_positions(ctx, repo):
    """Companion of C19.h: measured qubit i goes to bit i of the register (the layout the condition constants rely on).
    Decided by interpreting MeasurementGate._qasm_ on model gates (1-3 qubits, every invert mask incl. short ones, both language versions)
    and reading the emitted text: statement k measures the k-th qubit of the operation into bit k of the key's register, and an inverted
    position is wrapped in a pair of x statements on that qubit."""
    ci = repo.cls('cirq.ops.measurement_gate.MeasurementGate')
    fn = repo.method(ci.qual, '_qasm_')
    params = [a.arg for a in fn.args.args]
    if len(params) != 3:
        raise AnalysisError('MeasurementGate._qasm_: expected (self, args, qubits)')

    def fmt(template, *vals):
        def sub(m):
            idx, spec = int(m.group(1)), m.group(2)
            v = vals[idx]
            if spec == 'meas':
                return f'm_{v}'
            if spec:
                raise fdx.Unsupported(f'format spec {spec}')
            return str(v)
        return re.sub(r'\{(\d+)(?::(\w+))?\}', sub, template)

    def call_hook(call, it):
        if ast.unparse(call.func) == "''.join":
            return ''.join(it.ev(call.args[0]))
        return NotImplemented
    k = 0
    for version in ('2.0', '3.0'):
        for n in (1, 2, 3):
            masks = {m[:ln] for m in itertools.product((False, True), repeat=n) for ln in range(n + 1)}
            for mask in sorted(masks):
                full = tuple(mask) + (False,) * (n - len(mask))
                me = {'key': 'k', '_mkey': 'k', 'invert_mask': tuple(mask), '_invert_mask': tuple(mask), 'confusion_map': {}, '_confusion_map': {},
                      '_qid_shape': (2,) * n, 'full_invert_mask': (lambda f=full: f)}
                args = {'format': fmt, 'validate_version': lambda *a: None, 'version': version, 'precision': 10}
                it = fdx.NumInterp({params[0]: me, params[1]: args, params[2]: tuple(f'q{i}' for i in range(n))}, call_hook=call_hook)
                try:
                    out = it.call(fn)
                except (fdx.Unsupported, fdx.Raised) as ex:
                    raise AnalysisError(f'cannot interpret MeasurementGate._qasm_: {ex}')
                lines = [l.split('//')[0].strip() for l in (out or '').split('\n') if l.strip()]
                got, flips, cur = [], [], []
                bad = None
                for l in lines:
                    m2 = re.fullmatch(r'measure (q\d+) -> m_k\[(\d+)\];', l) or None
                    m3 = re.fullmatch(r'm_k\[(\d+)\] = measure (q\d+);', l) or None
                    mx = re.fullmatch(r'x (q\d+);', l)
                    if m2 and version == '2.0':
                        got.append((m2.group(1), int(m2.group(2))))
                    elif m3 and version == '3.0':
                        got.append((m3.group(2), int(m3.group(1))))
                    elif mx:
                        flips.append((len(got), mx.group(1)))
                    else:
                        bad = f'unexpected statement `{l}`'
                want = [(f'q{i}', i) for i in range(n)]
                if bad is None and got != want:
                    bad = f'measurements {got}: the register index is not the position of the measured qubit in the operation (expected {want})'
                wantflips = [(i + d, f'q{i}') for i in range(n) if full[i] for d in (0, 1)]
                if bad is None and sorted(flips) != sorted(wantflips):
                    bad = f'inverting x statements {flips} do not wrap exactly the inverted positions {[i for i in range(n) if full[i]]}'
                k += 1
                ctx.ob('C19.h', f'{ci.qual}._qasm_:bit-position:v{version}:n={n}:mask={"".join("1" if b_ else "0" for b_ in mask) or "-"}', bad is None, bad or '', ci.mod.rel, fn.lineno)
    if k == 0:
        raise AnalysisError('MeasurementGate._qasm_: no measure statement found')


def _phased_x_export(ctx, repo):
    """C19.i - PhasedXPowGate._qasm_ == Z^p X^e Z^-p up to phase on a grid of (exponent, phase exponent)."""
    ctx.decided.append('C19.i PhasedXPowGate._qasm_ (u2 / u3 forms, and any delegation to the export of another library gate) is Z^p X^e Z^-p up to global phase on a grid incl. whole and half '
                       'phase exponents')
    ctx.rule('C19.i', 'PhasedXPowGate export: interpreting _qasm_ for exponents e and phase exponents p on a grid (p incl. 0, +-0.5, 1, e incl. +-0.5, 1, fractional), the emitted statements '
             'read with the qelib1 definitions multiply to Z^p X^e Z^-p up to global phase; a delegation cirq.qasm(<library gate>(...)) is followed into that gate\'s own _qasm_', floor=40, style='FDX')
    ci = repo.cls('cirq.ops.phased_x_gate.PhasedXPowGate')
    fn = ci.methods.get('_qasm_')
    if fn is None:
        raise AnalysisError('PhasedXPowGate._qasm_ vanished')

    def fmt(template, *vals):
        def sub(mo):
            idx, spec = int(mo.group(1)), mo.group(2)
            v = vals[idx]
            if spec == 'half_turns':
                return f'pi*{float(v)!r}'
            if spec:
                raise fdx.Unsupported(f'format spec {spec}')
            return str(v)
        return re.sub(r'\{(\d+)(?::(\w+))?\}', sub, template)
    args = {'format': fmt, 'validate_version': lambda *a: None, 'version': '2.0', 'precision': 10}
    X_ = np.array([[0, 1], [1, 0]], dtype=complex)

    def xpow(e):
        return np.array([[1, 0], [0, 1]], dtype=complex) * (1 + np.exp(1j * np.pi * e)) / 2 + X_ * (1 - np.exp(1j * np.pi * e)) / 2

    def zpow(t):
        return np.diag([1, np.exp(1j * np.pi * t)])
    n = 0
    for e in (0.5, -0.5, 1.0, 0.3, -0.7, 1.5, 0.25, 2.0, 0.0):
        for p in (0.0, 0.5, -0.5, 1.0, 0.25, 0.3, -0.8):
            self_obj = {'_exponent': e, 'exponent': e, '_phase_exponent': p, 'phase_exponent': p, '_global_shift': 0.0, 'global_shift': 0.0}

            def call_hook(call, it):
                s = ast.unparse(call.func)
                if s.endswith('is_parameterized') or s.endswith('_is_parameterized_'):
                    return False
                if s.endswith('canonicalize_half_turns'):
                    h = float(it.ev(call.args[0])) % 2
                    return h - 2 if h > 1 else h
                if s == 'cast' and len(call.args) == 2:
                    return it.ev(call.args[1])
                if s.split('.')[-1] == 'qasm' and call.args and isinstance(call.args[0], ast.Call):
                    inner = call.args[0]
                    tgt = repo.resolve_in_func(ci.mod, fn, dotted(inner.func) or '')
                    sub_fn = repo.find_method(tgt, '_qasm_') if tgt is not None and hasattr(tgt, 'methods') else None
                    if sub_fn is None:
                        raise fdx.Unsupported(f'delegation to {ast.unparse(inner.func)} cannot be followed')
                    kws = {k.arg: it.ev(k.value) for k in inner.keywords}
                    pos = [it.ev(a_) for a_ in inner.args]
                    ex_ = kws.get('exponent', pos[0] if pos else 1.0)
                    sh_ = kws.get('global_shift', 0.0)
                    return _emit(sub_fn[1], ex_, sh_, 1)
                return NotImplemented
            it = fdx.NumInterp({'self': self_obj, 'args': args, 'qubits': ('q0',)}, call_hook=call_hook)
            try:
                text = it.call(fn)
            except (fdx.Unsupported, fdx.Raised) as ex:
                raise AnalysisError(f'cannot interpret PhasedXPowGate._qasm_: {ex}')
            if text is None:
                continue
            n += 1
            try:
                v = _qasm_unitary(text, 1)
            except ValueError as ex:
                ctx.ob('C19.i', f'{ci.qual}._qasm_:e={e}:p={p}', False, f'unreadable export: {ex}', ci.mod.rel, fn.lineno, construct=f'{ci.qual}._qasm_')
                continue
            u = zpow(p) @ xpow(e) @ zpow(-p)
            ov = abs(np.trace(u.conj().T @ v)) / 2
            ok = abs(ov - 1) < 1e-9
            ctx.ob('C19.i', f'{ci.qual}._qasm_:e={e}:p={p}', ok, '' if ok else
                   f'PhasedXPowGate(exponent={e}, phase_exponent={p}) is exported as `{text.strip()}`, which is not Z^{p} X^{e} Z^-{p} up to phase (overlap {ov:.4f})', ci.mod.rel, fn.lineno,
                   construct=f'{ci.qual}._qasm_')
    if n == 0:
        raise AnalysisError('PhasedXPowGate._qasm_ declines every probe')


def _condition_export_covers_fields(ctx, repo):
    """C19.j - the QASM text of a classical condition depends on every field that changes what the condition tests."""
    from .. import fields as F
    ctx.decided.append('C19.j _qasm_ of every Condition class reads each of its declared fields (writes it or refuses under a test of it): a field nobody reads is exported as its default')
    ctx.rule('C19.j', 'condition export covers the fields: for every subclass of cirq.value.condition.Condition that defines _qasm_ (or the `qasm` property it returns), each annotated '
             'class-level field of the class is read in that method (through helpers and properties) - KeyCondition(key, index): a condition on an earlier record must not be exported '
             'as a condition on the latest one', floor=3, style='COH')
    base = repo.cls('cirq.value.condition.Condition')
    n = 0
    for ci in sorted(repo.subclasses(base), key=lambda c: c.qual):
        if '.testing.' in ci.qual:
            continue
        fn = ci.methods.get('_qasm_')
        qp = ci.methods.get('qasm')
        if fn is None and qp is None:
            continue
        flds = [st.target.id for st in ci.node.body if isinstance(st, ast.AnnAssign) and isinstance(st.target, ast.Name) and not st.target.id.startswith('_')]
        if not flds:
            continue
        from ..flow import always_raises
        # the effective exporter: _qasm_ of the class, else the inherited one, which returns the `qasm` property
        eff = fn if fn is not None else qp
        if always_raises([s_ for s_ in eff.body if not (isinstance(s_, ast.Expr) and isinstance(s_.value, ast.Constant))]):
            n += 1
            ctx.ob('C19.j', f'{ci.qual}._qasm_:refuses', True, 'the export refuses this kind of condition outright', ci.mod.rel, eff.lineno)
            continue
        reads = set()
        for f_ in (fn, qp):
            if f_ is not None:
                reads |= {F.norm_field(repo, ci, r_) for r_ in F.self_reads(repo, ci, f_, depth=2)} | set(F.self_reads(repo, ci, f_, depth=2))
        for fl in flds:
            n += 1
            ok = fl in reads or ('_' + fl) in reads
            ctx.ob('C19.j', f'{ci.qual}._qasm_:{fl}', ok, '' if ok else
                   f'the exported condition never looks at `{fl}`: two conditions that differ in it are written as the same QASM test', ci.mod.rel, (fn or qp).lineno)
    if n == 0:
        raise AnalysisError('C19.j: no Condition class with a QASM export found')


def _identifier_validators_match_whole_string(ctx, repo, rid='C19.l'):
    """The register-name validator of the QASM output accepts a key only if the whole string is an identifier."""
    ctx.decided.append(f'{rid} the compiled patterns QasmOutput validates identifiers with are anchored at the very end of the string (\\Z or fullmatch), not with `$`, which also matches before a trailing newline')
    ctx.rule(rid, 'identifier validation is about the whole string: every regular expression compiled in cirq.circuits.qasm_output and applied with .match() ends in `\\Z` (or is applied with '
             '.fullmatch()); a pattern ending in `$` accepts "a\\n", which is then written as a register name that reads as `m_a` - two keys share one register', floor=1, style='TBL')
    m = repo.module('cirq-core/cirq/circuits/qasm_output.py')
    n = 0
    pats = {}
    for st in ast.walk(m.tree):
        if isinstance(st, ast.Assign) and len(st.targets) == 1 and isinstance(st.targets[0], ast.Name) and isinstance(st.value, ast.Call) and call_name(st.value) == 'compile' \
                and st.value.args and isinstance(st.value.args[0], ast.Constant) and isinstance(st.value.args[0].value, str):
            pats[st.targets[0].id] = (st.value.args[0].value, st.lineno)
    for name, (pat, line) in sorted(pats.items()):
        uses = [c for c in ast.walk(m.tree) if isinstance(c, ast.Call) and isinstance(c.func, ast.Attribute) and c.func.attr in ('match', 'fullmatch', 'search')
                and ((isinstance(c.func.value, ast.Attribute) and c.func.value.attr == name) or (isinstance(c.func.value, ast.Name) and c.func.value.id == name))]
        if not uses or all(c.func.attr == 'search' for c in uses):
            continue
        n += 1
        ok = pat.endswith('\\Z') or all(c.func.attr == 'fullmatch' for c in uses)
        ctx.ob(rid, f'{m.name}:{name}', ok, '' if ok else f'pattern {pat!r} is applied with .match() and does not end in \\Z: a trailing newline (or, without an end anchor, any suffix) is accepted '
               'as part of a valid identifier', m.rel, line)
    if n == 0:
        raise AnalysisError(f'{rid}: no identifier validator found in qasm_output.py')


def _qudit_gates_refused(ctx, repo, rid='C19.k'):
    """A gate class that can be a qudit gate (its constructor takes a dimension / qid shape) looks at it before it answers with qubit QASM."""
    from .. import fields as F
    ctx.decided.append(f'{rid} every _qasm_ of a class whose constructor takes `dimension` / `qid_shape` reads that field (QASM has qubit registers only)')
    ctx.rule(rid, 'qudits are not exported as qubits: for every class that defines _qasm_ and whose constructor (own or inherited) has a `dimension` or `qid_shape` parameter, _qasm_ reads '
             'the field that parameter is stored in - an XPowGate(dimension=3) is otherwise written as `x q[0];`, a different gate on a different space, without any error', floor=4, style='COH')
    n = 0
    for ci in sorted(repo.classes.values(), key=lambda c: c.qual):
        if ci.mod.rel.endswith('_test.py') or '/testing/' in ci.mod.rel or '/contrib/' in ci.mod.rel:
            continue
        fn = ci.methods.get('_qasm_')
        if fn is None:
            continue
        init = None
        for c in repo.mro(ci):
            if '__init__' in c.methods:
                init, owner = c.methods['__init__'], c
                break
        if init is None:
            continue
        dparams = [a.arg for a in init.args.args + init.args.kwonlyargs if a.arg in ('dimension', 'qid_shape')]
        if not dparams:
            continue
        p2f = F.init_param_to_field(repo, owner)
        flds = set()
        for p in dparams:
            flds |= {f for f in p2f.get(p, ()) if '.' not in f}
        if not flds:
            continue
        rd = F.self_reads(repo, ci, fn, depth=2)
        n += 1
        ok = bool(flds & rd) or any(F.norm_field(repo, ci, f.lstrip('_')) in rd for f in flds) or any(f.lstrip('_') in {r.lstrip('_') for r in rd} for f in flds)
        ctx.ob(rid, f'{ci.qual}._qasm_:reads-dimension', ok, '' if ok else
               f'the class can be built with {dparams} (stored in {sorted(flds)}), but _qasm_ never looks at it: a qudit gate is written as the qubit gate of the same name', ci.mod.rel, fn.lineno)
    if n == 0:
        raise AnalysisError(f'{rid}: no qudit-capable class with _qasm_ found')
