"""C05 - circuits stay well-formed and order-preserving under any edit history.

Decided (structural core): after every mutation path no summary cache and no placement
index can be stale (typestate over paths, with method summaries); `_mutated` resets every
lazily filled field; the places that decide "these conflict" implement one relation; moment
indexes are only written together; frozen circuits / moments are not written after
construction; batch edits are all-or-nothing.
Not decided: that indices equal what each strategy documents; zip/concat arithmetic.
"""
from __future__ import annotations

import ast
from typing import Dict, List, Optional, Set, Tuple

from ..core import AnalysisError, call_name, dotted, is_self_attr, kwarg, walk_local
from ..flow import PathWalker, conjuncts, dominating_atoms, block_of
from .. import fields as F
from . import shared

CIRC = 'cirq.circuits.circuit.Circuit'
ABS = 'cirq.circuits.circuit.AbstractCircuit'
MUT_METHODS = {'append', 'insert', 'extend', 'pop', 'clear', 'sort', 'reverse', 'remove', '__setitem__', '__delitem__'}


class Typestate:
    """mode: 'E' caches empty, 'C' caches consistent (maybe filled), 'D' stale.
    pm:   'N' placement cache None, 'V' valid, 'S' stale.  Tracked per circuit variable."""

    def __init__(self, repo, ci, cache_fields: Set[str], fillers: Set[str]):
        self.repo = repo
        self.ci = ci
        self.cache_fields = cache_fields
        self.fillers = fillers
        self.summaries: Dict[Tuple[str, str, str], Set[Tuple[str, str]]] = {}
        self.ret_summaries: Dict[str, Set[Tuple[str, str]]] = {}
        self.in_progress: Set[Tuple[str, str, str]] = set()
        self.reports: List[dict] = []
        self.current_fn = None
        self.fn_syncs = False

    # --- state helpers: state = (vars tuple, flags frozenset, pc_aliases frozenset)
    @staticmethod
    def mk(vars_: dict, flags: dict, aliases: frozenset, resets: frozenset = frozenset()):
        return (tuple(sorted(vars_.items())), tuple(sorted(flags.items())), aliases, resets)

    @staticmethod
    def un(state):
        return dict(state[0]), dict(state[1]), state[2], state[3]

    def _syncing_methods(self):
        """Methods that place through the placement cache (<cache>.append(item)) - themselves, through an own helper they call, or, for a private
        helper, because every caller of it in the class does: extracting `_pick_placement` / `_place` from a bulk-placement loop keeps the idiom."""
        if getattr(self, '_sync_cache', None) is not None:
            return self._sync_cache
        meths = {}
        for c in self.repo.mro(self.ci):
            for mn, f in c.methods.items():
                meths.setdefault(mn, f)

        def appends(fn):
            return any(
                isinstance(c, ast.Call) and isinstance(c.func, ast.Attribute) and c.func.attr == 'append' and
                ('_placement_cache' in ast.unparse(c.func.value) or
                 any(isinstance(a, ast.Assign) and isinstance(a.targets[0], ast.Name) and a.targets[0].id == ast.unparse(c.func.value)
                     and '_placement_cache' in ast.unparse(a.value) for a in ast.walk(fn)))
                for c in ast.walk(fn))

        def callees(fn):
            return {c.func.attr for c in ast.walk(fn) if isinstance(c, ast.Call) and isinstance(c.func, ast.Attribute) and isinstance(c.func.value, ast.Name)
                    and c.func.value.id == 'self' and c.func.attr in meths}
        sync = {mn for mn, f in meths.items() if appends(f)}
        for _ in range(2):
            sync |= {mn for mn, f in meths.items() if any(c.startswith('_') and not c.startswith('__') and c in sync for c in callees(f))}
        # private helpers called only from syncing methods
        for mn, f in meths.items():
            if mn.startswith('_') and not mn.startswith('__') and mn not in sync:
                callers = [m2 for m2, f2 in meths.items() if f2 is not f and mn in callees(f2)]
                if callers and all(m2 in sync for m2 in callers):
                    sync.add(mn)
        self._sync_cache = sync
        return sync

    def write(self, v):
        mode, pm, sync = v
        mode = {'E': 'E', 'C': 'D', 'D': 'D'}[mode]
        if pm == 'V' and not (sync or self.fn_syncs):
            pm = 'S'
        return (mode, pm, sync)

    def fill(self, v):
        mode, pm, sync = v
        return ({'E': 'C', 'C': 'C', 'D': 'D'}[mode], pm, sync)

    # --- summaries
    def summary(self, mname: str, mode: str, pm: str):
        key = (mname, mode, pm)
        if key in self.summaries:
            return self.summaries[key]
        r = self.repo.find_method(self.ci, mname)
        if r is None or key in self.in_progress:
            return {(mode, pm)}
        self.in_progress.add(key)
        exits = self.analyse(r[1], mode, pm)
        out = set()
        rets = set()
        for kind, st, node in exits:
            if kind == 'raise':
                continue
            vars_, flags, _, _ = self.un(st)
            sm, sp, _ = vars_['self']
            out.add((sm, sp))
            if isinstance(node, ast.Return) and isinstance(node.value, ast.Name) and node.value.id in vars_ and node.value.id != 'self':
                rm, rp, _ = vars_[node.value.id]
                rets.add((rm, rp))
            elif isinstance(node, ast.Return) and isinstance(node.value, ast.Call):
                rv = self.eval_new(node.value, vars_)
                if rv is not None:
                    rets.add((rv[0], rv[1]))
        self.in_progress.discard(key)
        self.summaries[key] = out or {(mode, pm)}
        if rets:
            self.ret_summaries.setdefault(mname, set()).update(rets)
        return self.summaries[key]

    def eval_new(self, call: ast.Call, vars_):
        """(mode, pm, sync) of the circuit produced by `call`, or None if not a tracked constructor."""
        f = call.func
        d = dotted(f) or ''
        if d in ('Circuit', 'cirq.Circuit', 'circuit.Circuit') or (d == 'cls'):
            if not call.args:
                return ('E', 'V', False)
            # constructing with contents: result of __init__ from a fresh object
            outs = self.summary('__init__', 'D', 'N')
            mode = 'C' if any(m == 'C' for m, _ in outs) else ('D' if any(m == 'D' for m, _ in outs) else 'E')
            pm = 'S' if any(p == 'S' for _, p in outs) else ('V' if any(p == 'V' for _, p in outs) else 'N')
            return (mode, pm, False)
        if isinstance(f, ast.Attribute) and isinstance(f.value, ast.Name) and f.value.id in vars_:
            m = f.attr
            if self.repo.find_method(self.ci, m) is not None:
                sm, sp, _ = vars_[f.value.id]
                self.summary(m, sm, sp)
                rets = self.ret_summaries.get(m)
                if rets:
                    mode = 'D' if any(x == 'D' for x, _ in rets) else ('C' if any(x == 'C' for x, _ in rets) else 'E')
                    pm = 'S' if any(p == 'S' for _, p in rets) else ('V' if any(p == 'V' for _, p in rets) else 'N')
                    return (mode, pm, False)
        return None

    # --- events
    def events(self, node):
        """Post-order list of calls, then stores, of a simple statement / expression."""
        out = []

        def rec(n):
            if isinstance(n, (ast.FunctionDef, ast.AsyncFunctionDef, ast.Lambda, ast.ClassDef)):
                return
            for c in ast.iter_child_nodes(n):
                rec(c)
            if isinstance(n, ast.Call):
                out.append(('call', n))
        if isinstance(node, (ast.Assign, ast.AnnAssign, ast.AugAssign)):
            if getattr(node, 'value', None) is not None:
                rec(node.value)
            tgts = node.targets if isinstance(node, ast.Assign) else [node.target]
            for t in tgts:
                for sub in ast.walk(t):
                    if isinstance(sub, ast.Subscript):
                        rec(sub.slice)
                out.append(('store', t, getattr(node, 'value', None), isinstance(node, ast.AugAssign)))
        elif isinstance(node, ast.Delete):
            for t in node.targets:
                out.append(('store', t, None, False))
        elif isinstance(node, (ast.Return, ast.Raise)):
            pass  # value already applied by the walker
        else:
            rec(node)
        return out

    def transfer(self, node, state):
        vars_, flags, aliases, resets = self.un(state)
        for ev in self.events(node):
            if ev[0] == 'call':
                c = ev[1]
                f = c.func
                if isinstance(f, ast.Attribute):
                    recv = f.value
                    # V._mutated(...)
                    if isinstance(recv, ast.Name) and recv.id in vars_ and f.attr == '_mutated':
                        mode, pm, sync = vars_[recv.id]
                        keep = kwarg(c, 'preserve_placement_cache')
                        if keep is not None and isinstance(keep, ast.Constant) and keep.value is True:
                            vars_[recv.id] = ('E', pm, sync)
                        elif keep is not None and not isinstance(keep, ast.Constant):
                            vars_[recv.id] = ('E', pm, sync)  # unknown flag: worst case keeps the cache
                        else:
                            vars_[recv.id] = ('E', 'N', False)
                        continue
                    # V._moments.<mutator>(...)
                    if isinstance(recv, ast.Attribute) and recv.attr == '_moments' and isinstance(recv.value, ast.Name) \
                            and recv.value.id in vars_ and f.attr in MUT_METHODS:
                        vars_[recv.value.id] = self.write(vars_[recv.value.id])
                        continue
                    # V._placement_cache.append(...) or alias.append(...)
                    if f.attr == 'append' and ((isinstance(recv, ast.Attribute) and recv.attr == '_placement_cache'
                                                and isinstance(recv.value, ast.Name) and recv.value.id in vars_)):
                        v = recv.value.id
                        mode, pm, _ = vars_[v]
                        vars_[v] = (mode, pm, True)
                        continue
                    if f.attr == 'append' and isinstance(recv, ast.Name) and recv.id in dict(aliases):
                        v = dict(aliases)[recv.id]
                        mode, pm, _ = vars_[v]
                        vars_[v] = (mode, pm, True)
                        continue
                    # V.method(...)
                    if isinstance(recv, ast.Name) and recv.id in vars_:
                        m = f.attr
                        if self.repo.find_method(self.ci, m) is not None:
                            mode, pm, sync = vars_[recv.id]
                            if pm == 'S':
                                outs = {(mm, 'S') for mm, _ in self.summary(m, mode, 'V')}
                            else:
                                outs = self.summary(m, mode, pm)
                            # join (worst case) to stay deterministic per path
                            order = {'E': 0, 'C': 1, 'D': 2}
                            porder = {'N': 0, 'V': 1, 'S': 2}
                            nm = max((o[0] for o in outs), key=lambda x: order[x])
                            npm = max((o[1] for o in outs), key=lambda x: porder[x])
                            vars_[recv.id] = (nm, npm, sync if npm == pm else False)
                            if m in self.fillers:
                                vars_[recv.id] = self.fill(vars_[recv.id])
                            continue
                    # super().method(...) of a filler
                # tracked var passed bare as an argument: the callee may query (fill) it
                for a in list(c.args) + [k.value for k in c.keywords]:
                    if isinstance(a, ast.Name) and a.id in vars_:
                        vars_[a.id] = self.fill(vars_[a.id])
            else:
                _, tgt, val, aug = ev
                base = tgt
                while isinstance(base, ast.Subscript):
                    base = base.value
                # stores into V._moments (whole, slice, item, augmented, delete)
                if isinstance(base, ast.Attribute) and base.attr == '_moments' and isinstance(base.value, ast.Name) \
                        and base.value.id in vars_:
                    v = base.value.id
                    if self.current_fn == '__init__' and base is tgt and isinstance(val, ast.List) and not val.elts:
                        continue  # field initialisation to the empty list, not an edit
                    vars_[v] = self.write(vars_[v])
                    continue
                if isinstance(tgt, ast.Attribute) and isinstance(tgt.value, ast.Name) and tgt.value.id in vars_:
                    v = tgt.value.id
                    mode, pm, sync = vars_[v]
                    if tgt.attr == '_placement_cache':
                        if isinstance(val, ast.Constant) and val.value is None:
                            vars_[v] = (mode, 'N', False)
                        else:
                            vars_[v] = (mode, 'V', False)
                        continue
                    if tgt.attr in self.cache_fields:
                        if isinstance(val, ast.Constant) and val.value is None:
                            resets = resets | {(v, tgt.attr)}
                            if {f for vv, f in resets if vv == v} >= self.cache_fields:
                                vars_[v] = ('E', pm, sync)
                                resets = frozenset(x for x in resets if x[0] != v)
                        else:
                            vars_[v] = self.fill(vars_[v])
                        continue
                if isinstance(tgt, ast.Name) and aug and tgt.id in vars_:
                    # V += x  ->  V.__iadd__(x)
                    mode, pm, sync = vars_[tgt.id]
                    outs = self.summary('__iadd__', mode, 'V' if pm == 'S' else pm)
                    order = {'E': 0, 'C': 1, 'D': 2}
                    porder = {'N': 0, 'V': 1, 'S': 2}
                    nm = max((o[0] for o in outs), key=lambda x: order[x])
                    npm = 'S' if pm == 'S' else max((o[1] for o in outs), key=lambda x: porder[x])
                    vars_[tgt.id] = (nm, npm, False)
                    continue
                if isinstance(tgt, ast.Name):
                    # flags
                    if isinstance(val, ast.Constant) and tgt.id not in flags and not aug:
                        flags[tgt.id] = ('init', repr(val.value))
                    elif isinstance(val, ast.UnaryOp) and isinstance(val.operand, ast.Constant) and tgt.id not in flags and not aug:
                        flags[tgt.id] = ('init', ast.unparse(val))
                    elif tgt.id in flags:
                        flags[tgt.id] = ('changed', flags[tgt.id][1])
                    # new tracked circuits / aliases
                    if isinstance(val, ast.Call):
                        nv = self.eval_new(val, vars_)
                        if nv is not None:
                            vars_[tgt.id] = nv
                        elif tgt.id in vars_ and tgt.id != 'self':
                            del vars_[tgt.id]
                    if val is not None:
                        for sub in ast.walk(val):
                            if isinstance(sub, ast.Attribute) and sub.attr == '_placement_cache' and isinstance(sub.value, ast.Name) \
                                    and sub.value.id in vars_:
                                aliases = aliases | {(tgt.id, sub.value.id)}
        return [self.mk(vars_, flags, aliases, resets)]

    def branch(self, test, pol, state):
        vars_, flags, aliases, resets = self.un(state)
        atoms = conjuncts(test, pol)
        if not ((pol and not (isinstance(test, ast.BoolOp) and isinstance(test.op, ast.Or))) or
                (not pol and not (isinstance(test, ast.BoolOp) and isinstance(test.op, ast.And)))):
            atoms = []
        for a, p in atoms:
            # self._placement_cache truthiness
            if isinstance(a, ast.Attribute) and a.attr == '_placement_cache' and isinstance(a.value, ast.Name) and a.value.id in vars_:
                mode, pm, sync = vars_[a.value.id]
                if p and pm == 'N':
                    return []
                if not p and pm == 'V':
                    return []
                if not p and pm == 'S':
                    vars_[a.value.id] = (mode, 'N', False)
            if isinstance(a, ast.Compare) and len(a.ops) == 1 and isinstance(a.left, ast.Attribute) and a.left.attr == '_placement_cache' \
                    and isinstance(a.left.value, ast.Name) and a.left.value.id in vars_ and isinstance(a.comparators[0], ast.Constant) \
                    and a.comparators[0].value is None:
                isnone = (isinstance(a.ops[0], ast.Is) and p) or (isinstance(a.ops[0], ast.IsNot) and not p)
                mode, pm, sync = vars_[a.left.value.id]
                if isnone and pm == 'V':
                    return []
                if not isnone and pm == 'N':
                    return []
            # flag tests  x != c / x == c with c the initial constant
            if isinstance(a, ast.Compare) and len(a.ops) == 1 and isinstance(a.left, ast.Name) and a.left.id in flags:
                try:
                    c = ast.unparse(a.comparators[0])
                except Exception:
                    continue
                st, init = flags[a.left.id]
                if c == init or repr(c) == init or c == init.strip("'"):
                    ne = (isinstance(a.ops[0], ast.NotEq) and p) or (isinstance(a.ops[0], ast.Eq) and not p)
                    eq = (isinstance(a.ops[0], ast.Eq) and p) or (isinstance(a.ops[0], ast.NotEq) and not p)
                    if ne and st == 'init':
                        return []
                    if eq and st == 'changed':
                        return []
        return [self.mk(vars_, flags, aliases, resets)]

    def analyse(self, fn, mode, pm):
        prev = (self.current_fn, self.fn_syncs)
        self.current_fn = fn.name
        # idiom "bulk placement": a function that places items through the placement cache
        # (<cache>.append(item)) keeps the cache in step with the writes it makes; the loops that
        # place and the loops that materialise are correlated by construction (cache._length)
        self.fn_syncs = fn.name in self._syncing_methods()
        try:
            return self._analyse(fn, mode, pm)
        finally:
            self.current_fn, self.fn_syncs = prev

    def _analyse(self, fn, mode, pm):
        w = PathWalker(self.transfer, self.branch)
        init = self.mk({'self': (mode, pm, False)}, {}, frozenset())
        return w.run(fn, init)


def _lazy_fields(ci) -> Set[str]:
    """Fields filled lazily: `if self._f is None: self._f = ...`."""
    out = set()
    for fn in ci.methods.values():
        for n in ast.walk(fn):
            if isinstance(n, ast.If) and isinstance(n.test, ast.Compare) and isinstance(n.test.ops[0], ast.Is) \
                    and is_self_attr(n.test.left) and isinstance(n.test.comparators[0], ast.Constant) \
                    and n.test.comparators[0].value is None:
                f = n.test.left.attr
                for st in n.body:
                    if isinstance(st, ast.Assign) and any(is_self_attr(t, f) for t in st.targets):
                        out.add(f)
    return out


def run(ctx):
    repo = ctx.repo
    shared.reconsume_rule(ctx, 'C05.j', ['cirq-core/cirq/circuits/', 'cirq-core/cirq/ops/'], floor=2)
    shared.control_keys_cover_rule(ctx, 'C05.k', floor=4)
    shared.control_index_monotone_rule(ctx, 'C05.l', ['cirq-core/cirq/circuits/'], floor=1)
    _batch_insert_shift(ctx, repo)
    _placement_sites_key_aware(ctx, repo)
    _inline_cursor_monotone(ctx, repo)
    _batch_reference_index(ctx, repo)
    _derived_circuits_keep_tags(ctx, repo)
    _moment_subtraction_is_per_occurrence(ctx, repo)
    ctx.decided.append('C05.l placement bookkeeping keeps, per control key, the latest moment that reads it (running maximum)')
    ctx.decided.append('C05.k the control keys the placement logic orders operations by cover every child of a wrapping operation')
    ctx.decided.append('C05.j a one-shot OP_TREE / Iterable argument is walked once: after it has been flattened into a local, the raw argument is not consumed again')
    ctx.decided += [
        'C05.a no path through any Circuit method leaves a summary cache stale (typestate with method summaries)',
        'C05.b _mutated() resets every lazily filled field',
        'C05.c/d no path leaves the placement cache live but out of step with the moments, for self and for locally built circuits',
        'C05.e the five conflict tests implement one relation; the placement index update covers qubits, measurement and control keys',
        'C05.f Moment indexes are written together; C05.g who-may-write Moment/FrozenCircuit storage; C05.h batch edits are all-or-nothing',
    ]
    ctx.not_decided += ['that computed indices equal what each InsertStrategy documents', 'zip/concat_ragged/factorize arithmetic',
                        'behaviour of queries on consistent data']
    ci = repo.cls(CIRC)
    rel = ci.mod.rel
    cache_fields = _lazy_fields(ci)
    mut = repo.method(CIRC, '_mutated')
    reset = {t.attr for n in ast.walk(mut) if isinstance(n, ast.Assign) and isinstance(n.value, ast.Constant) and n.value.value is None
             for t in n.targets if is_self_attr(t)}

    # ------------------------------------------------------------------ C05.b
    ctx.rule('C05.b', 'every lazily filled field of Circuit (`if self._f is None: self._f = ...`) is reset to None by _mutated()', floor=5, style='COH')
    if len(cache_fields) < 5:
        raise AnalysisError(f'only {len(cache_fields)} lazily filled fields recognised in Circuit')
    for f in sorted(cache_fields):
        ok = f in reset
        ctx.ob('C05.b', f'{CIRC}._mutated:resets:{f}', ok, '' if ok else f'`{f}` is filled lazily but never reset by _mutated(): it goes stale after any edit', rel, mut.lineno)
    uncond_pc = any(isinstance(n, ast.If) and any(is_self_attr(t, '_placement_cache') for s in n.body if isinstance(s, ast.Assign) for t in s.targets)
                    and 'preserve_placement_cache' in ast.unparse(n.test) for n in ast.walk(mut))
    ctx.ob('C05.b', f'{CIRC}._mutated:resets:_placement_cache', uncond_pc, '' if uncond_pc else '_mutated() no longer drops the placement cache by default', rel, mut.lineno)

    # ------------------------------------------------------------------ C05.a/c/d
    fillers = set()
    for mn, fn in ci.methods.items():
        if mn in ('_mutated', '__init__'):
            continue
        w = F.self_writes(fn)
        if any(f in cache_fields for f in w):
            fillers.add(mn)
    ctx.rule('C05.a', 'cache typestate: on every non-raising path of every Circuit method, from a consistent entry state, self (and any '
             'circuit returned) ends with summary caches empty or consistent: a write to _moments after a possible cache fill must be '
             'followed by _mutated()', floor=30, style='MPT')
    ctx.rule('C05.c', 'placement typestate: on every such path the placement cache ends None or in step with the moments: a direct write to '
             '_moments while the cache may be live must be preceded by placing the item through the cache or followed by dropping it', floor=30, style='MPT')
    ts = Typestate(repo, ci, cache_fields, fillers)
    # private helpers are judged at their call sites (through summaries); everything else from clean entry states
    called_privately = set()
    for fn in ci.methods.values():
        for c in ast.walk(fn):
            if isinstance(c, ast.Call) and isinstance(c.func, ast.Attribute) and isinstance(c.func.value, ast.Name) and c.func.value.id == 'self':
                called_privately.add(c.func.attr)
    for mn, fn in sorted(ci.methods.items()):
        decs = [dotted(d) or '' for d in fn.decorator_list]
        if any(d.endswith('staticmethod') for d in decs) or mn == '_mutated':
            continue
        is_cls = any(d.endswith('classmethod') for d in decs)
        if mn.startswith('_') and not mn.startswith('__') and mn in called_privately and mn not in ('_from_moments',):
            continue
        entries = [('D', 'N')] if mn == '__init__' else [('C', 'V'), ('C', 'N'), ('E', 'V')]
        worst_mode, worst_pm, where = None, None, None
        for em, ep in entries:
            if is_cls:
                w = PathWalker(ts.transfer, ts.branch)
                exits = w.run(fn, ts.mk({}, {}, frozenset()))
            else:
                exits = ts.analyse(fn, em, ep)
            for kind, st, node in exits:
                if kind == 'raise':
                    continue
                vars_, flags, _, _ = ts.un(st)
                check = []
                if 'self' in vars_ and not is_cls:
                    check.append(('self', vars_['self']))
                if isinstance(node, ast.Return) and isinstance(node.value, ast.Name) and node.value.id in vars_ and node.value.id != 'self':
                    check.append((node.value.id, vars_[node.value.id]))
                if isinstance(node, ast.Return) and isinstance(node.value, ast.Call):
                    nv = ts.eval_new(node.value, vars_)
                    if nv is not None:
                        check.append(('<returned>', nv))
                for vn, (m_, p_, s_) in check:
                    if m_ == 'D' and worst_mode is None:
                        worst_mode = (vn, em, ep, node.lineno)
                    if p_ == 'S' and worst_pm is None:
                        worst_pm = (vn, em, ep, node.lineno)
        key = f'{CIRC}.{mn}'
        ctx.ob('C05.a', key, worst_mode is None,
               '' if worst_mode is None else f'a path ending at line {worst_mode[3]} leaves `{worst_mode[0]}` with _moments changed after a '
               f'possible cache fill and no _mutated() (entry caches={worst_mode[1]}): all_qubits()/freeze()/is_parameterized may answer from stale data',
               rel, fn.lineno)
        ctx.ob('C05.c', key, worst_pm is None,
               '' if worst_pm is None else f'a path ending at line {worst_pm[3]} leaves `{worst_pm[0]}` with a live placement cache that did not see a '
               f'write to _moments (entry placement={worst_pm[2]}): the next EARLIEST append is placed from a stale index', rel, fn.lineno)

    _conflict(ctx, repo, ci)
    _moment_rules(ctx, repo)
    _frozen_rules(ctx, repo)
    _batch_rules(ctx, repo, ci)
    _cache_inheritance(ctx, repo)


# ---------------------------------------------------------------------------
OP_NAMES = {'op', 'operation', 'mop', 'moment_or_operation', 'moment_or_op'}


def _kind_side(expr, env, items=frozenset(OP_NAMES)):
    """Classify a key-set expression as (kind, side): kind M/C/Q, side 'op' (the item being placed) or 'mo' (what is already there)."""
    if isinstance(expr, ast.Name):
        return env.get(expr.id)
    src = ast.unparse(expr)
    k = None
    if 'measurement_key_objs' in src:
        k = 'M'
    elif 'control_keys' in src:
        k = 'C'
    elif src.endswith('.qubits'):
        k = 'Q'
    if k is None:
        return None
    names = {n.id for n in ast.walk(expr) if isinstance(n, ast.Name)}
    side = 'op' if names & items and 'moment' not in (names - items) and '_moments' not in src else 'mo'
    return (k, side)


def _conflict_pairs(fn, mod=None, seed_env=None, depth=0):
    # the item being placed: a parameter with an operation-like name, or the variable of a loop over a parameter
    params = {a.arg for a in fn.args.args + fn.args.kwonlyargs}
    items = set(OP_NAMES & params)
    for n in ast.walk(fn):
        if isinstance(n, ast.For) and isinstance(n.target, ast.Name) and isinstance(n.iter, ast.Name) and n.iter.id in params:
            items.add(n.target.id)
    items = frozenset(items)
    env = dict(seed_env or {})
    for n in ast.walk(fn):
        if isinstance(n, ast.Assign) and len(n.targets) == 1 and isinstance(n.targets[0], ast.Name):
            ks = _kind_side(n.value, {}, items)
            if ks:
                env[n.targets[0].id] = ks
    # accumulators of what is already present: sets that are grown with a key set of the item
    for n in ast.walk(fn):
        acc = val = None
        if isinstance(n, ast.Call) and isinstance(n.func, ast.Attribute) and n.func.attr in ('update', 'add') and isinstance(n.func.value, ast.Name) and n.args:
            acc, val = n.func.value.id, n.args[0]
        elif isinstance(n, ast.AugAssign) and isinstance(n.op, ast.BitOr) and isinstance(n.target, ast.Name):
            acc, val = n.target.id, n.value
        if acc is not None and acc not in env:
            ks = _kind_side(val, env, items)
            if ks and ks[1] == 'op':
                env[acc] = (ks[0], 'mo')
    pairs = set()
    # a conflict test extracted into a private module-level helper: the helper is read with its parameters bound to the kinds of the arguments
    if mod is not None and depth < 2:
        for n in ast.walk(fn):
            if isinstance(n, ast.Call) and isinstance(n.func, ast.Name) and isinstance(mod.defs.get(n.func.id), ast.FunctionDef) and mod.defs[n.func.id] is not fn:
                g = mod.defs[n.func.id]
                gp = [a.arg for a in g.args.posonlyargs + g.args.args]
                bound = {}
                for i_, a_ in enumerate(n.args):
                    ks_ = _kind_side(a_, env, items)
                    if ks_ and i_ < len(gp):
                        bound[gp[i_]] = ks_
                for k_ in n.keywords:
                    ks_ = _kind_side(k_.value, env, items)
                    if ks_ and k_.arg:
                        bound[k_.arg] = ks_
                if bound:
                    pairs |= _conflict_pairs(g, mod, bound, depth + 1)
    for n in ast.walk(fn):
        if isinstance(n, ast.Call) and isinstance(n.func, ast.Attribute) and n.func.attr == 'isdisjoint' and n.args:
            a, b = _kind_side(n.func.value, env, items), _kind_side(n.args[0], env, items)
            if a and b and a[1] != b[1]:
                pairs.add((a[0], b[0]) if a[1] == 'op' else (b[0], a[0]))
        if isinstance(n, ast.Call) and isinstance(n.func, ast.Attribute) and n.func.attr == 'operates_on':
            pairs.add(('Q', 'Q'))
        # [X_indices.get(key, -1) for key in mop_Y]   (the index dictionaries are parameters of the function)
        if isinstance(n, (ast.ListComp, ast.GeneratorExp)) and len(n.generators) == 1:
            it = _kind_side(n.generators[0].iter, env, items)
            e = n.elt
            if it and isinstance(e, ast.Call) and isinstance(e.func, ast.Attribute) and e.func.attr == 'get' and isinstance(e.func.value, ast.Name):
                idx = e.func.value.id
                xk = 'M' if idx.startswith('mkey') else ('C' if idx.startswith('ckey') else ('Q' if idx.startswith('qubit') else None))
                if xk:
                    pairs.add((it[0], xk))
    return pairs


def _conflict(ctx, repo, ci):
    ctx.rule('C05.e', 'one conflict relation: every site deciding whether an operation can share/pass a moment tests exactly '
             '{qubit-qubit, measurement-measurement, op control vs present measurement, op measurement vs present control} and never '
             'control-control; the placement index is consulted and updated for qubits, measurement keys and control keys, for '
             'operations and moments alike', floor=12, style='COH')
    m = ci.mod
    sites = []
    for mn in ('earliest_available_moment', '_can_add_op_at', '_latest_available_moment'):
        r = repo.find_method(ci, mn)
        if r is None:
            raise AnalysisError(f'Circuit.{mn} vanished')
        sites.append((f'{r[0].qual}.{mn}', r[1]))
    for fname in ('_group_into_moment_compatible', 'get_earliest_accommodating_moment_index'):
        fn = m.defs.get(fname)
        if not isinstance(fn, ast.FunctionDef):
            raise AnalysisError(f'{m.name}.{fname} vanished')
        sites.append((f'{m.name}.{fname}', fn))
    need = {('Q', 'Q'), ('M', 'M'), ('C', 'M'), ('M', 'C')}
    for key, fn in sites:
        pairs = _conflict_pairs(fn, m)
        for p in sorted(need):
            ok = p in pairs
            ctx.ob('C05.e', f'{key}:tests:{p[0]}{p[1]}', ok,
                   '' if ok else f'conflict relation at this site lacks the test (item {p[0]}, present {p[1]}) [Q=qubits, M=measurement keys, C=control keys]; '
                   f'tested: {sorted(pairs)}', m.rel, fn.lineno)
        extra = pairs - need
        ctx.ob('C05.e', f'{key}:no-extra', not extra, '' if not extra else f'conflict relation at this site also tests {sorted(extra)} (control keys commute with each other)', m.rel, fn.lineno)
    fn = dict(sites)[f'{m.name}.get_earliest_accommodating_moment_index']
    params = [a.arg for a in fn.args.args]
    idx_params = [p for p in params if p.endswith('_indices')]
    if len(idx_params) < 3:
        raise AnalysisError('get_earliest_accommodating_moment_index: index parameters vanished')
    parents = m.parents()
    stores = {}
    for n in ast.walk(fn):
        if isinstance(n, ast.Subscript) and isinstance(n.value, ast.Name) and n.value.id in idx_params and isinstance(n.ctx, ast.Store):
            stores.setdefault(n.value.id, []).append(n)
    keyvars = {}
    for n in ast.walk(fn):
        if isinstance(n, ast.Assign) and len(n.targets) == 1 and isinstance(n.targets[0], ast.Name):
            ks = _kind_side(n.value, {})
            if ks:
                keyvars[n.targets[0].id] = (ks, n)
            elif isinstance(n.value, ast.IfExp):
                for br in (n.value.body, n.value.orelse):
                    ks = _kind_side(br, {})
                    if ks:
                        keyvars[n.targets[0].id] = (ks, n)
    for p in idx_params:
        ok = p in stores
        ctx.ob('C05.e', f'get_earliest_accommodating_moment_index:updates:{p}', ok, '' if ok else f'placement index `{p}` is never updated', m.rel, fn.lineno)
        for s in stores.get(p, []):
            atoms = dominating_atoms(parents, s, fn)
            cond = [ast.unparse(a) for a, pol in atoms if 'isinstance' in ast.unparse(a)]
            ctx.ob('C05.e', f'get_earliest_accommodating_moment_index:updates:{p}:all-items', not cond,
                   '' if not cond else f'update of `{p}` only happens when `{cond[0]}`: what appended moments touch is forgotten', m.rel, s.lineno)
            # ckey index keeps the maximum
            if p.startswith('ckey'):
                par = parents.get(s)
                src = ast.unparse(par.value) if isinstance(par, ast.Assign) else ''
                okm = src.startswith('max(')
                ctx.ob('C05.e', f'get_earliest_accommodating_moment_index:updates:{p}:max', okm,
                       '' if okm else 'control-key index is overwritten instead of keeping the maximum: an earlier-placed control op lowers the index', m.rel, s.lineno)
    # every definition of the key/qubit set that reaches an index update must be the extraction from the item itself
    from ..flow import reaching_defs
    upd_loops = []
    for n in ast.walk(fn):
        if isinstance(n, ast.For) and isinstance(n.iter, ast.Name):
            for x in ast.walk(n):
                if isinstance(x, ast.Subscript) and isinstance(x.ctx, ast.Store) and isinstance(x.value, ast.Name) and x.value.id in idx_params:
                    upd_loops.append((n, x.value.id))
    rd = reaching_defs(fn, {l.iter.id for l, _ in upd_loops})
    for loop, idx in upd_loops:
        want = 'M' if idx.startswith('mkey') else ('C' if idx.startswith('ckey') else 'Q')
        defs = rd.get(id(loop.iter), set())
        bad = []
        for d in defs:
            ks = _kind_side(d, {}) if isinstance(d, ast.AST) else None
            if ks is None or ks[0] != want or ks[1] != 'op':
                bad.append(ast.unparse(d) if isinstance(d, ast.AST) else str(d))
        ok = bool(defs) and not bad
        ctx.ob('C05.e', f'get_earliest_accommodating_moment_index:update-source:{idx}', ok,
               '' if ok else f'`{idx}` is updated from `{loop.iter.id}`, which on some path is `{bad[0] if bad else "undefined"}` rather than the '
               f'{ {"M": "measurement keys", "C": "control keys", "Q": "qubits"}[want] } of the item being placed: what that item touches never reaches the index',
               m.rel, loop.lineno)


def _moment_rules(ctx, repo):
    ctx.rule('C05.f', 'Moment index coherence: a method that builds a moment by storing `_operations` on a new object also stores '
             '`_qubit_to_op` (and key caches from both the old moment and the added operations), after the overlap test', floor=4, style='COH')
    ctx.rule('C05.g', 'who-may-write: Moment storage fields are stored only in __init__/with_operation(s)/lazy fillers; '
             '`<expr>._moments` is stored only inside circuit.py / frozen_circuit.py', floor=3, style='WMW')
    mo = repo.cls('cirq.circuits.moment.Moment')
    rel = mo.mod.rel
    for mn in ('with_operation', 'with_operations'):
        fn = mo.methods.get(mn)
        if fn is None:
            raise AnalysisError(f'Moment.{mn} vanished')
        stores = {}
        for n in ast.walk(fn):
            if isinstance(n, ast.Attribute) and isinstance(n.ctx, ast.Store) and isinstance(n.value, ast.Name) and n.value.id != 'self':
                stores.setdefault(n.attr, []).append(n)
        for f in ('_operations', '_qubit_to_op', '_measurement_key_objs', '_control_keys'):
            ok = f in stores
            ctx.ob('C05.f', f'Moment.{mn}:stores:{f}', ok, '' if ok else f'{mn} builds a moment without setting `{f}`', rel, fn.lineno)
        # key caches must combine the old moment's keys and the new operations' keys
        for f in ('_measurement_key_objs', '_control_keys'):
            for st in ast.walk(fn):
                if isinstance(st, ast.Assign) and any(isinstance(t, ast.Attribute) and t.attr == f and not is_self_attr(t) for t in st.targets):
                    src = ast.unparse(st.value)
                    old = f'self.{f}_()' in src or f'self.{f}' in src
                    forced = f'self.{f}_()' in src
                    new = 'protocols.' in src or 'measurement_key_objs(' in src or 'control_keys(' in src
                    ctx.ob('C05.f', f'Moment.{mn}:{f}:old+new', forced and new,
                           '' if forced and new else f'new moment\'s `{f}` = `{src[:70]}` does not combine the old moment\'s keys '
                           '(through the accessor that computes them) with the added operations\' keys', rel, st.lineno)
        # a raise guarded by an overlap test on the qubit index must exist
        ok = False
        for r in [n for n in ast.walk(fn) if isinstance(n, ast.Raise)]:
            for a, pol in dominating_atoms(mo.mod.parents(), r, fn):
                src = ast.unparse(a)
                if '_qubit_to_op' in src or 'operates_on' in src:
                    ok = True
        ctx.ob('C05.f', f'Moment.{mn}:overlap-test', ok, '' if ok else f'{mn} no longer rejects operations overlapping the moment', rel, fn.lineno)
    allowed = {'__init__', 'with_operation', 'with_operations', '_with_sorted_operations', 'with_tags'}
    for mn, fn in mo.methods.items():
        for n in ast.walk(fn):
            if isinstance(n, ast.Attribute) and isinstance(n.ctx, ast.Store) and n.attr in ('_operations', '_qubit_to_op'):
                ok = mn in allowed
                ctx.ob('C05.g', f'Moment.{mn}:stores:{n.attr}', ok, '' if ok else f'Moment.{mn} writes `{n.attr}` after construction', rel, n.lineno)
    for m in sorted(repo.modules.values(), key=lambda m: m.rel):
        if m.rel.endswith(('circuits/circuit.py', 'circuits/frozen_circuit.py')):
            continue
        parents = m.parents()
        for n in ast.walk(m.tree):
            tgt = None
            if isinstance(n, ast.Attribute) and n.attr == '_moments' and isinstance(n.ctx, (ast.Store, ast.Del)):
                tgt = n
            elif isinstance(n, ast.Subscript) and isinstance(n.ctx, (ast.Store, ast.Del)) and isinstance(n.value, ast.Attribute) \
                    and n.value.attr == '_moments':
                tgt = n.value
            if tgt is not None:
                obj = ast.unparse(tgt.value)
                ok = False
                cur = n
                while not ok:
                    b = block_of(parents, cur)
                    if b is None:
                        break
                    owner, fld, lst, idx = b
                    for st in lst[idx + 1:]:
                        if isinstance(st, ast.Expr) and isinstance(st.value, ast.Call) and isinstance(st.value.func, ast.Attribute) \
                                and st.value.func.attr == '_mutated' and ast.unparse(st.value.func.value) == obj:
                            ok = True
                        if isinstance(st, ast.Return):
                            break
                    if isinstance(owner, (ast.FunctionDef, ast.AsyncFunctionDef, ast.Module)):
                        break
                    cur = owner
                fnode = n
                while fnode in parents and not isinstance(fnode, (ast.FunctionDef, ast.AsyncFunctionDef)):
                    fnode = parents[fnode]
                fname = getattr(fnode, 'name', '<module>')
                ctx.ob('C05.g', f'{m.name}.{fname}:foreign-store:{obj}._moments', ok,
                       '' if ok else f'`{obj}._moments` is rebound/edited outside the circuit classes and `{obj}._mutated()` does not follow: '
                       'cached qubits/parameters/frozen view and the placement cache of that circuit go stale', m.rel, n.lineno)
            if isinstance(n, ast.Attribute) and n.attr in ('_operations', '_qubit_to_op') and isinstance(n.ctx, ast.Store) \
                    and not m.rel.endswith('circuits/moment.py') and not (isinstance(n.value, ast.Name) and n.value.id == 'self'):
                ctx.ob('C05.g', f'{m.name}:foreign-store:{n.attr}', False, f'Moment storage `{n.attr}` written outside moment.py', m.rel, n.lineno)


def _frozen_rules(ctx, repo):
    fc = repo.cls('cirq.circuits.frozen_circuit.FrozenCircuit')
    rel = fc.mod.rel
    allowed = {'__init__', '_from_moments', 'with_tags'}
    for mn, fn in fc.methods.items():
        for n in ast.walk(fn):
            if isinstance(n, ast.Attribute) and n.attr == '_moments' and isinstance(n.ctx, (ast.Store, ast.Del)):
                ok = mn in allowed
                ctx.ob('C05.g', f'FrozenCircuit.{mn}:stores:_moments', ok, '' if ok else f'FrozenCircuit.{mn} rebinds _moments of a frozen circuit', rel, n.lineno)
                # value must be a tuple(...) or another frozen circuit's _moments
                par = fc.mod.parents().get(n)
                if isinstance(par, ast.Assign):
                    v = par.value
                    okv = (isinstance(v, ast.Call) and call_name(v) == 'tuple') or (isinstance(v, ast.Attribute) and v.attr == '_moments') \
                        or (isinstance(v, ast.Name))
                    src = ast.unparse(v)
                    if isinstance(v, ast.Name):
                        # local must itself be a tuple(...)
                        okv = any(isinstance(a, ast.Assign) and isinstance(a.targets[0], ast.Name) and a.targets[0].id == v.id and
                                  isinstance(a.value, ast.Call) and call_name(a.value) == 'tuple' for a in ast.walk(fn)) or v.id == 'moments' and False
                    ctx.ob('C05.g', f'FrozenCircuit.{mn}:_moments-immutable', okv, '' if okv else f'FrozenCircuit._moments bound to `{src[:50]}` (not a tuple / frozen storage)', rel, n.lineno)
        # mutating calls on self._moments
        for c in ast.walk(fn):
            if isinstance(c, ast.Call) and isinstance(c.func, ast.Attribute) and c.func.attr in MUT_METHODS and \
                    isinstance(c.func.value, ast.Attribute) and c.func.value.attr == '_moments':
                ctx.ob('C05.g', f'FrozenCircuit.{mn}:mutates:_moments', False, f'FrozenCircuit.{mn} mutates _moments in place', rel, c.lineno)


def _batch_rules(ctx, repo, ci):
    ctx.rule('C05.h', 'all-or-nothing batch edits: batch_remove/batch_replace/batch_insert_into/batch_insert work on a copy; the only '
             'store into self is `self._moments = copy._moments` after the last raise-capable statement, followed by _mutated()', floor=4, style='MPT')
    rel = ci.mod.rel
    for mn in ('batch_remove', 'batch_replace', 'batch_insert_into', 'batch_insert'):
        fn = ci.methods.get(mn)
        if fn is None:
            raise AnalysisError(f'Circuit.{mn} vanished')
        copies = [n for n in ast.walk(fn) if isinstance(n, ast.Assign) and isinstance(n.value, ast.Call) and call_name(n.value) == 'copy'
                  and isinstance(n.value.func, ast.Attribute) and isinstance(n.value.func.value, ast.Name) and n.value.func.value.id == 'self']
        if not copies:
            ctx.ob('C05.h', f'{CIRC}.{mn}', False, f'{mn} no longer edits a copy of self: a failure half-way leaves the circuit partially edited', rel, fn.lineno)
            continue
        cname = copies[0].targets[0].id
        self_stores = [n for n in ast.walk(fn) if isinstance(n, ast.Attribute) and isinstance(n.ctx, (ast.Store, ast.Del)) and is_self_attr(n)]
        self_muts = [c for c in ast.walk(fn) if isinstance(c, ast.Call) and isinstance(c.func, ast.Attribute) and
                     ((isinstance(c.func.value, ast.Name) and c.func.value.id == 'self' and c.func.attr in
                       ('insert', 'append', 'clear_operations_touching', 'insert_into_range', '_insert_operations', '__setitem__', 'batch_insert_into')) or
                      (isinstance(c.func.value, ast.Attribute) and is_self_attr(c.func.value, '_moments') and c.func.attr in MUT_METHODS))]
        subs = [n for n in ast.walk(fn) if isinstance(n, ast.Subscript) and isinstance(n.ctx, (ast.Store, ast.Del)) and is_self_attr(n.value, '_moments')]
        last_raise = max([n.lineno for n in ast.walk(fn) if isinstance(n, ast.Raise)] +
                         [c.lineno for c in ast.walk(fn) if isinstance(c, ast.Call) and isinstance(c.func, ast.Attribute)
                          and isinstance(c.func.value, ast.Name) and c.func.value.id == cname], default=0)
        ok = True
        msg = ''
        if self_muts or subs:
            ok = False
            msg = f'{mn} mutates self directly (line {(self_muts + subs)[0].lineno}) instead of the copy'
        for s in self_stores:
            if s.attr != '_moments':
                continue
            par = ci.mod.parents().get(s)
            src = ast.unparse(par.value) if isinstance(par, ast.Assign) else ''
            if src != f'{cname}._moments':
                ok = False
                msg = f'{mn} stores `{src}` into self._moments (expected {cname}._moments)'
            if s.lineno < last_raise:
                ok = False
                msg = f'{mn} commits to self before the last statement that can fail (line {last_raise})'
        if not any(s.attr == '_moments' for s in self_stores):
            ok = False
            msg = msg or f'{mn} never commits the edited copy back to self'
        ctx.ob('C05.h', f'{CIRC}.{mn}', ok, msg, rel, fn.lineno)


def _cache_inheritance(ctx, repo):
    """C05.i - a circuit built from another one inherits a memoised summary only if no field the summary depends on was changed."""
    ctx.decided.append('C05.i a circuit built from another circuit (with_tags, copy, _from_moments, ...) takes over a memoised summary - a lazy field, a cached method/property, '
                       'or the whole __dict__ - only if every field that summary is computed from is carried over unchanged')
    ctx.rule('C05.i', 'cache inheritance: in every method of Circuit / FrozenCircuit that builds a new circuit and changes a field F (tags, moments), no memoised value whose '
             'computation reads F (e.g. is_parameterized, parameter_names, __hash__ read the tags) is copied from self', floor=6, style='COH')
    ac = repo.cls('cirq.circuits.circuit.AbstractCircuit')
    for cq in ('cirq.circuits.circuit.Circuit', 'cirq.circuits.frozen_circuit.FrozenCircuit'):
        ci = repo.cls(cq)
        # memoised slots and what they are computed from
        slots = {}
        for mn, fn in ci.methods.items():
            decs = [dotted(d) or ast.unparse(d) for d in fn.decorator_list]
            cached = any(d.split('.')[-1] in ('cached_method', 'cached_property') for d in decs)
            lazy = None
            for st in ast.walk(fn):      # `if self._x is None: self._x = super().m()`
                if isinstance(st, ast.Assign) and len(st.targets) == 1 and is_self_attr(st.targets[0]) and isinstance(st.value, ast.Call) \
                        and isinstance(st.value.func, ast.Attribute) and isinstance(st.value.func.value, ast.Call) and call_name(st.value.func.value) == 'super':
                    lazy = (st.targets[0].attr, st.value.func.attr)
            if lazy is not None:
                base = repo.find_method(ac, lazy[1])
                if base is not None:
                    slots[lazy[0]] = F.self_reads(repo, ci, base[1], depth=3)
            elif cached:
                rd = F.self_reads(repo, ci, fn, depth=1)
                sup = [c.func.attr for c in ast.walk(fn) if isinstance(c, ast.Call) and isinstance(c.func, ast.Attribute) and isinstance(c.func.value, ast.Call)
                       and call_name(c.func.value) == 'super']
                sup += [n.attr for n in ast.walk(fn) if isinstance(n, ast.Attribute) and isinstance(n.value, ast.Call) and call_name(n.value) == 'super']
                for sm in sup:
                    base = repo.find_method(ac, sm)
                    if base is not None:
                        rd |= F.self_reads(repo, ci, base[1], depth=3)
                slots['<cached:' + mn + '>'] = rd
        if not slots:
            raise AnalysisError(f'{cq}: no memoised summaries found')

        def norm(fs):
            out = set()
            for f in fs:
                f = F.norm_field(repo, ci, f)
                out.add({'moments': '_moments', 'tags': '_tags'}.get(f, f))
            return out
        slots = {k: norm(v) for k, v in slots.items()}
        for mn, fn in sorted(ci.methods.items()):
            news = {st.targets[0].id: st.value for st in ast.walk(fn) if isinstance(st, ast.Assign) and len(st.targets) == 1 and isinstance(st.targets[0], ast.Name)
                    and isinstance(st.value, ast.Call) and call_name(st.value) in (ci.name, 'Circuit', 'FrozenCircuit', 'cls')}
            if not news:
                continue
            for nm, ctor in news.items():
                changed = set()
                inherited = set()
                wholesale = False
                for k in ctor.keywords:
                    if k.arg and ast.unparse(k.value) not in (f'self.{k.arg}', f'self._{k.arg}'):
                        changed.add('_' + k.arg.lstrip('_'))
                if ctor.args:
                    changed.add('_moments')
                for st in ast.walk(fn):
                    if isinstance(st, ast.Assign) and len(st.targets) == 1:
                        t, v = st.targets[0], st.value
                        base = t.value if isinstance(t, ast.Subscript) else t
                        if isinstance(base, ast.Attribute) and isinstance(base.value, ast.Name) and base.value.id == nm:
                            f = base.attr
                            src = ast.unparse(v)
                            if src in (f'self.{f}', f'self.{f.lstrip("_")}', f'self._{f.lstrip("_")}'):
                                if f in slots:
                                    inherited.add(f)
                            elif not (isinstance(v, ast.Constant) and v.value is None):
                                changed.add('_' + f.lstrip('_'))
                    if isinstance(st, ast.Call) and isinstance(st.func, ast.Attribute) and st.func.attr == 'update' and ast.unparse(st.func.value) == f'{nm}.__dict__' \
                            and st.args and ast.unparse(st.args[0]) == 'self.__dict__':
                        wholesale = True
                if wholesale:
                    inherited |= set(slots)
                stale = sorted(s for s in inherited if slots[s] & changed)
                ctx.ob('C05.i', f'{cq}.{mn}:{nm}', not stale,
                       '' if not stale else f'{mn} builds a circuit whose {sorted(changed)} differ from self but hands it the memoised {stale} of self, which '
                       f'{"are" if len(stale) > 1 else "is"} computed from {sorted(set().union(*[slots[s] & changed for s in stale]))}: the new circuit answers (is_parameterized, '
                       'parameter_names, hash ...) with the values of the old one', ci.mod.rel, fn.lineno)


def _batch_insert_shift(ctx, repo):
    """C05.m - batch_insert: later insertion points move by the number of moments created, not by what insert() returns."""
    ctx.decided.append('C05.m Circuit.batch_insert accounts for earlier insertions by the growth of the circuit (len after - len before), not by the index insert() returns (which is one '
                       'past the insertion point even when the operation joined an existing moment)')
    ctx.rule('C05.m', 'shift == moments created: in Circuit.batch_insert the running shift is increased by an expression built from len(<circuit>) taken before and after the insertion; it '
             'never depends on the value returned by insert()', floor=1, style='TNT')
    from ..flow import name_deps
    ci = repo.cls('cirq.circuits.circuit.Circuit')
    fn = ci.methods.get('batch_insert')
    if fn is None:
        raise AnalysisError('Circuit.batch_insert vanished')

    def src(x):
        if isinstance(x, ast.Call) and isinstance(x.func, ast.Attribute) and x.func.attr == 'insert':
            return {'INSERT_RESULT'}
        if isinstance(x, ast.Call) and call_name(x) == 'len':
            return {'LEN'}
        return None
    dep = name_deps(fn, {}, source_of=src)
    upd = [a for a in ast.walk(fn) if isinstance(a, ast.AugAssign) and isinstance(a.target, ast.Name)] + \
          [a for a in ast.walk(fn) if isinstance(a, ast.Assign) and len(a.targets) == 1 and isinstance(a.targets[0], ast.Name)
           and any(isinstance(x, ast.Name) and x.id == a.targets[0].id for x in ast.walk(a.value))]
    # the variable added to the caller's index
    shift_names = set()
    for a in ast.walk(fn):
        if isinstance(a, ast.Assign) and isinstance(a.value, ast.BinOp) and isinstance(a.value.op, ast.Add):
            shift_names |= {x.id for x in ast.walk(a.value) if isinstance(x, ast.Name)}
    upd = [a for a in upd if (a.target.id if isinstance(a, ast.AugAssign) else a.targets[0].id) in shift_names]
    if not upd:
        raise AnalysisError('batch_insert: the running shift is no longer updated')
    for k, a in enumerate(upd, 1):
        labs = set()
        for x in ast.walk(a.value):
            if isinstance(x, ast.Name):
                labs |= dep.get(x.id, set())
            labs |= src(x) or set()
        ok = 'LEN' in labs and 'INSERT_RESULT' not in labs
        ctx.ob('C05.m', f'{ci.qual}.batch_insert:shift#{k}', ok, '' if ok else
               f'`{ast.unparse(a)}` derives the shift from {sorted(labs) or "nothing"}: insert() returns max(k, p+1) - one past the insertion index even when no moment was created - so later '
               'insertions land one moment too late and can jump over an operation they were to precede', ci.mod.rel, a.lineno)


def _placement_sites_key_aware(ctx, repo):
    """C05.n - every routine of circuit.py that decides where an operation goes looks at its keys as well as its qubits."""
    ctx.decided.append('C05.n placement routines of circuit.py (those that walk the qubits of an operation and write moments / indices) also consult measurement and control keys, directly or '
                       'through a key-aware helper (1 known finding: the frontier-based insertion)')
    ctx.rule('C05.n', 'keys order operations too: every function of cirq.circuits.circuit that decides a position from the qubits of an operation (operates_on(<op>.qubits), a loop over '
             '<op>.qubits, or a helper that lists them) and then writes a moment or a position table also uses measurement_key_objs / control_keys of the operation or a key-aware '
             'helper (_can_add_op_at, earliest_available_moment, get_earliest_accommodating_moment_index, the placement cache) - otherwise a classically controlled operation can be '
             'placed before or next to the measurement it reads', floor=4, style='RG')
    m = repo.module('cirq-core/cirq/circuits/circuit.py')
    KEYA = {'measurement_key_objs', 'control_keys', '_can_add_op_at', 'earliest_available_moment', 'get_earliest_accommodating_moment_index', '_PlacementCache',
            '_latest_available_moment', '_group_into_moment_compatible'}
    n = 0
    for fn in [f for f in ast.walk(m.tree) if isinstance(f, ast.FunctionDef)]:
        uses_q = any(isinstance(c, ast.Call) and isinstance(c.func, ast.Attribute) and c.func.attr == 'operates_on' and c.args and 'qubits' in ast.unparse(c.args[0]) for c in ast.walk(fn)) or \
            any(isinstance(l, (ast.For, ast.comprehension)) and ast.unparse(l.iter).endswith('.qubits') for l in ast.walk(fn)) or \
            any(isinstance(c, ast.Call) and isinstance(c.func, ast.Attribute) and c.func.attr == '_can_add_op_at' for c in ast.walk(fn))
        if not uses_q:
            continue
        src = ast.unparse(fn)
        places = any(isinstance(x, ast.Call) and isinstance(x.func, ast.Attribute) and x.func.attr in ('with_operation', 'with_operations', 'append', 'insert', 'setdefault')
                     for x in ast.walk(fn)) or '_moments[' in src
        if not places:
            continue
        # nested helper functions count with their parent
        names = {x.attr for x in ast.walk(fn) if isinstance(x, ast.Attribute)} | {x.id for x in ast.walk(fn) if isinstance(x, ast.Name)}
        n += 1
        ok = bool(names & KEYA)
        ctx.ob('C05.n', f'{m.name}.{fn.name}:key-aware', ok, '' if ok else
               f'{fn.name} chooses positions from the qubits of the operations alone: a measurement and the operation it controls act on different qubits, so they can be placed in the same '
               'moment or in the wrong order', m.rel, fn.lineno)
    if n == 0:
        raise AnalysisError('C05.n: no placement routine found')


def _inline_cursor_monotone(ctx, repo):
    """C05.o - insert_into_range writes inline: the moment cursor only moves forward over the whole call."""
    ctx.decided.append('C05.o Circuit.insert_into_range keeps one forward-moving moment cursor for all operations of the call (operations handed in together keep their order among themselves)')
    ctx.rule('C05.o', 'one cursor per call: in Circuit.insert_into_range the variable that indexes the moment being written (self._moments[i] = ...) is initialised before the loop over the '
             'operations and is only increased inside it - re-initialising it per operation lets a later operation land in a moment an earlier one of the same call had to skip', floor=1, style='MPT')
    ci = repo.cls('cirq.circuits.circuit.Circuit')
    fn = ci.methods.get('insert_into_range')
    if fn is None:
        raise AnalysisError('Circuit.insert_into_range vanished')
    par = ci.mod.parents()
    stores = [s for s in ast.walk(fn) if isinstance(s, ast.Assign) and isinstance(s.targets[0], ast.Subscript) and ast.unparse(s.targets[0].value).endswith('_moments')
              and isinstance(s.targets[0].slice, ast.Name)]
    if not stores:
        raise AnalysisError('insert_into_range: the inline write self._moments[i] = ... vanished')
    cur = stores[0].targets[0].slice.id
    loop = stores[0]
    outer = None
    while loop in par and loop is not fn:
        loop = par[loop]
        if isinstance(loop, (ast.While, ast.For)):
            outer = loop
    if outer is None:
        raise AnalysisError('insert_into_range: loop over the operations vanished')
    inside = {id(x) for x in ast.walk(outer)}
    bad = [a for a in ast.walk(fn) if isinstance(a, ast.Assign) and any(isinstance(t, ast.Name) and t.id == cur for t in a.targets) and id(a) in inside]
    inits = [a for a in ast.walk(fn) if isinstance(a, ast.Assign) and any(isinstance(t, ast.Name) and t.id == cur for t in a.targets) and id(a) not in inside]
    ok = not bad and bool(inits)
    ctx.ob('C05.o', f'{ci.qual}.insert_into_range:cursor-{cur}', ok, '' if ok else
           f'`{ast.unparse(bad[0]) if bad else cur}` (re)sets the write cursor inside the loop over the operations: the scan restarts for every operation, so operations of one call that share '
           'a qubit can be written out of order', ci.mod.rel, (bad[0].lineno if bad else fn.lineno))


def _batch_reference_index(ctx, repo):
    """C05.p - all operations of one batch are placed against the same insertion index."""
    ctx.decided.append('C05.p Circuit.insert: inside the loop that places the operations of one batch, the reference index k that bounds the placement (p = k, k - 1, '
                       'earliest_available_moment(.., end_moment_index=k)) is not moved to follow the placement of an item; it follows the placements once per batch')
    ctx.rule('C05.p', 'one reference index per batch: in Circuit.insert the innermost loop over the items of a batch does not update the variable that is passed as end_moment_index from the placement '
             'p of an item (opening a fresh moment for NEW_THEN_INLINE moves it by one, which is not a function of p) - moving it after every placement makes later items of the same batch scan from behind the moment they were compatible '
             'with, so they land after the insert location', floor=1, style='MPT')
    ci = repo.cls('cirq.circuits.circuit.Circuit')
    fn = ci.methods.get('insert')
    if fn is None:
        raise AnalysisError('Circuit.insert vanished')
    par = ci.mod.parents()
    # the scan for the earliest moment, called directly or through an own helper of the class (a `_pick_placement` extracted from the loop body)
    def scans(f):
        return any(isinstance(c, ast.Call) and isinstance(c.func, ast.Attribute) and c.func.attr == 'earliest_available_moment' for c in ast.walk(f))
    helper_names = {mn for mn, f in ci.methods.items() if f is not fn and scans(f)}
    top_assigned = {t.id for st in fn.body if isinstance(st, (ast.Assign, ast.AugAssign)) for t in (st.targets if isinstance(st, ast.Assign) else [st.target]) if isinstance(t, ast.Name)}
    calls = []
    for c in ast.walk(fn):
        if not (isinstance(c, ast.Call) and isinstance(c.func, ast.Attribute)):
            continue
        if c.func.attr == 'earliest_available_moment':
            kv0 = next((k.value for k in c.keywords if k.arg == 'end_moment_index'), None)
            calls.append((c, [kv0] if isinstance(kv0, ast.Name) else []))
        elif c.func.attr in helper_names and isinstance(c.func.value, ast.Name) and c.func.value.id == 'self':
            # the reference index among the helper's arguments: a name the function initialises at its top level (k = clamp(index))
            calls.append((c, [a for a in list(c.args) + [k.value for k in c.keywords] if isinstance(a, ast.Name) and a.id in top_assigned]))
    n = 0
    for c, kvs in calls:
        if not kvs:
            continue
        kv = kvs[0]
        loop = c
        while loop in par and not isinstance(loop, (ast.For, ast.While)):
            loop = par[loop]
        if not isinstance(loop, (ast.For, ast.While)):
            continue
        n += 1
        # the placement result: every name the call's value is stored in
        placed = {t.id for a in ast.walk(loop) if isinstance(a, ast.Assign) and any(x is c for x in ast.walk(a.value)) for t in a.targets if isinstance(t, ast.Name)}
        grow = True
        while grow:  # names computed from the placement inside the loop (max_p = max(p, max_p))
            grow = False
            for a in ast.walk(loop):
                if isinstance(a, ast.Assign) and len(a.targets) == 1 and isinstance(a.targets[0], ast.Name) and a.targets[0].id not in placed and a.targets[0].id != kv.id \
                        and placed & {x.id for x in ast.walk(a.value) if isinstance(x, ast.Name)}:
                    placed.add(a.targets[0].id)
                    grow = True
        bad = [a for a in ast.walk(loop) if isinstance(a, (ast.Assign, ast.AugAssign)) and any(isinstance(t, ast.Name) and t.id == kv.id
                                                                                              for t in (a.targets if isinstance(a, ast.Assign) else [a.target]))
               and placed & {x.id for x in ast.walk(a.value) if isinstance(x, ast.Name)}]
        ctx.ob('C05.p', f'{ci.qual}.insert:reference-index-{kv.id}', not bad, '' if not bad else
               f'`{ast.unparse(bad[0])}` changes `{kv.id}` inside the loop over the items of a batch: the next item of the same batch is placed relative to a later index', ci.mod.rel,
               bad[0].lineno if bad else c.lineno)
    if n == 0:
        raise AnalysisError('Circuit.insert: earliest_available_moment(.., end_moment_index=<name>) inside a loop vanished')


def _moment_subtraction_is_per_occurrence(ctx, repo):
    """C05.r - Moment.__sub__ removes one occurrence per subtracted operation."""
    ctx.decided.append('C05.r Moment.__sub__ consumes its removal collection per matched operation (a moment may hold equal qubit-less operations, e.g. two global phases): structure only')
    ctx.rule('C05.r', 'subtraction is per occurrence: Moment.__sub__ pairs every operation it drops with one consumed entry of what was asked to be removed - a .remove / .discard / .pop or a '
             'count decrement inside its loop, or Counter arithmetic; a plain membership filter drops every equal operation (both global phases of a moment when one was subtracted) and '
             'changes the unitary of circuit code that peels operations off moments', floor=1, style='MPT')
    ci = repo.cls('cirq.circuits.moment.Moment')
    fn = ci.methods.get('__sub__')
    if fn is None:
        raise AnalysisError('C05.r: Moment.__sub__ not found')
    consuming = []
    for l in ast.walk(fn):
        if isinstance(l, (ast.For, ast.While, ast.ListComp, ast.GeneratorExp, ast.SetComp)):
            for x in ast.walk(l):
                if isinstance(x, ast.Call) and isinstance(x.func, ast.Attribute) and x.func.attr in ('remove', 'discard', 'pop', 'popleft', 'subtract'):
                    consuming.append(x)
                if isinstance(x, ast.AugAssign) and isinstance(x.op, ast.Sub):
                    consuming.append(x)
    counter = [x for x in ast.walk(fn) if isinstance(x, ast.Call) and ast.unparse(x.func).split('.')[-1] == 'Counter']
    ok = bool(consuming or counter)
    ctx.ob('C05.r', 'cirq.circuits.moment.Moment.__sub__:per-occurrence', ok, '' if ok else
           'Moment.__sub__ never consumes an entry of the operations to remove: every operation equal to a subtracted one is dropped, whatever its multiplicity', ci.mod.rel, fn.lineno)


def _derived_circuits_keep_tags(ctx, repo):
    """C05.q - a circuit derived from self (same moments, rewritten operations) keeps the tags of self, like its siblings."""
    ctx.decided.append('C05.q every method of the circuit classes that returns a circuit built from the receiver\'s own moments passes tags= (siblings agree: tags are part of the value and of equality)')
    ctx.rule('C05.q', 'derived circuits keep their tags: in AbstractCircuit / Circuit / FrozenCircuit, a `return` that constructs a circuit (Circuit(...), cls(...), self._from_moments(...)) from '
             'an argument computed from the receiver\'s moments (self._moments / self.moments / iteration over self, directly or through a local) passes tags= - transform_qubits without it '
             'returns a circuit that is unequal to the same circuit built on the new qubits', floor=8, style='COH')
    n = 0
    for cq in ('cirq.circuits.circuit.AbstractCircuit', 'cirq.circuits.circuit.Circuit', 'cirq.circuits.frozen_circuit.FrozenCircuit'):
        ci = repo.cls(cq)
        for mn, fn in sorted(ci.methods.items()):
            decs = {ast.unparse(d) for d in fn.decorator_list}
            if 'staticmethod' in decs or 'classmethod' in decs or not fn.args.args or fn.args.args[0].arg != 'self':
                continue
            nested = {id(x) for f in ast.walk(fn) if f is not fn and isinstance(f, (ast.FunctionDef, ast.Lambda)) for x in ast.walk(f)}

            def from_self(e, depth=0):
                for x in ast.walk(e):
                    if isinstance(x, ast.Attribute) and isinstance(x.value, ast.Name) and x.value.id == 'self' and x.attr in ('_moments', 'moments'):
                        return True
                    if isinstance(x, ast.comprehension) and isinstance(x.iter, ast.Name) and x.iter.id == 'self':
                        return True
                    if isinstance(x, ast.Name) and depth < 2 and x.id != 'self':
                        for a in ast.walk(fn):
                            if isinstance(a, ast.Assign) and any(isinstance(t, ast.Name) and t.id == x.id for t in a.targets) and from_self(a.value, depth + 1):
                                return True
                return False
            for r in ast.walk(fn):
                if not (isinstance(r, ast.Return) and isinstance(r.value, ast.Call)) or id(r) in nested:
                    continue
                c = r.value
                name = ast.unparse(c.func)
                if name.split('.')[-1] not in ('Circuit', '_from_moments', 'FrozenCircuit') and name not in ('type(self)', 'self.__class__', 'cls'):
                    continue
                args = list(c.args) + [k.value for k in c.keywords if k.arg != 'tags']
                if not any(from_self(a) for a in args):
                    continue
                n += 1
                ok = any(k.arg == 'tags' for k in c.keywords)
                ctx.ob('C05.q', f'{cq}.{mn}:tags@{r.lineno - fn.lineno}', ok, '' if ok else
                       f'`{ast.unparse(r)[:70]}` builds the result from the receiver\'s moments and drops its tags', ci.mod.rel, r.lineno)
    if n == 0:
        raise AnalysisError('C05.q: no derived-circuit construction found')
