"""C13 - the Clifford/stabilizer subsystem agrees with full state simulation.

Decided exactly (finite domains): every tableau update rule, for every supported exponent,
is the Pauli conjugation table of the textbook gate; the rowsum phase function `g` is the
Pauli-product phase; the row decoder reads the Aaronson-Gottesman encoding; both stabilizer
representations classify every exponent the same way (identity / acts / rejects); the
dispatcher calls the rule of the gate it tested, with exponent and global shift.
Not decided: CH-form algebra, measurement, from_unitary, decompositions, group laws.
"""
from __future__ import annotations

import ast
import itertools

import numpy as np

from ..core import AnalysisError, call_name, dotted
from .. import chains, fdx
from . import shared

TAB = 'cirq.qis.clifford_tableau.CliffordTableau'
CH = 'cirq.sim.clifford.stabilizer_state_ch_form.StabilizerStateChForm'

# ---- textbook reference (written here, not taken from the repository) -------------------------
I2 = np.eye(2, dtype=complex)
PX = np.array([[0, 1], [1, 0]], dtype=complex)
PY = np.array([[0, -1j], [1j, 0]], dtype=complex)
PZ = np.array([[1, 0], [0, -1]], dtype=complex)
HAD = np.array([[1, 1], [1, -1]], dtype=complex) / np.sqrt(2)
PAULI = {(0, 0): I2, (1, 0): PX, (1, 1): PY, (0, 1): PZ}   # Aaronson-Gottesman (x, z) encoding


def _pow(p, t):
    # P = (+1)|+><+| + (-1)|-><-|  ->  P**t = |+><+| + e^{i pi t}|-><-|   (global phase is irrelevant for conjugation)
    return (I2 + p) / 2 + np.exp(1j * np.pi * t) * (I2 - p) / 2


def _gate(name, t):
    if name in ('x', 'y', 'z'):
        return _pow({'x': PX, 'y': PY, 'z': PZ}[name], t)
    if name == 'h':
        return _pow(HAD, t)
    if name == 'cz':
        u = np.eye(4, dtype=complex)
        u[3, 3] = np.exp(1j * np.pi * t)
        return u
    if name == 'cx':
        # |0><0| x I + |1><1| x X**t
        p0 = np.diag([1, 0]).astype(complex)
        p1 = np.diag([0, 1]).astype(complex)
        return np.kron(p0, I2) + np.kron(p1, _pow(PX, t))
    raise KeyError(name)


def _conj(u, paulis, r):
    """U (-1)^r P U^dagger  ->  (x', z', r') or None if the image is not a signed Pauli."""
    m = paulis[0]
    for p in paulis[1:]:
        m = np.kron(m, p)
    m = (-1) ** r * u @ m @ u.conj().T
    n = len(paulis)
    for bits in itertools.product([0, 1], repeat=2 * n):
        xs, zs = bits[:n], bits[n:]
        q = PAULI[(xs[0], zs[0])]
        for k in range(1, n):
            q = np.kron(q, PAULI[(xs[k], zs[k])])
        for s in (0, 1):
            if np.allclose(m, (-1) ** s * q, atol=1e-9):
                return xs, zs, s
    return None


ARITY = {'x': 1, 'y': 1, 'z': 1, 'h': 1, 'cz': 2, 'cx': 2}
EXPS = {'x': [0.5, 1, 1.5, 2, 2.5, -0.5, -1, 3, 4, 0],
        'y': [0.5, 1, 1.5, 2, 2.5, -0.5, -1, 3, 4, 0],
        'z': [0.5, 1, 1.5, 2, 2.5, -0.5, -1, 3, 4, 0],
        'h': [1, 2, 3, -1, 0, 4], 'cz': [1, 2, 3, -1, 0, 4], 'cx': [1, 2, 3, -1, 0, 4]}
BAD_EXPS = {'x': [0.25, 1.3], 'y': [0.25, 1.3], 'z': [0.25, 1.3], 'h': [0.5, 1.5], 'cz': [0.5, 1.5], 'cx': [0.5, 1.5]}


def _tableau_interp(repo, ci, mname, args, cells):
    """Interpret CliffordTableau.<mname>(*args) over the cell dictionary (mutated in place)."""
    fn = ci.methods[mname]
    params = [a.arg for a in fn.args.args[1:]]
    defaults = fn.args.defaults
    env = {}
    for i, p in enumerate(params):
        if i < len(args):
            env[p] = args[i]
        else:
            d = defaults[i - (len(params) - len(defaults))]
            env[p] = ast.literal_eval(d)

    def cell_key(node, it):
        # self.xs[:, axis] / self.zs[:, axis] / self.rs[:]
        v = node.value
        if isinstance(v, ast.Attribute) and isinstance(v.value, ast.Name) and v.value.id == 'self' and v.attr in ('xs', 'zs', 'rs', '_xs', '_zs', '_rs'):
            f = v.attr.lstrip('_')
            sl = node.slice
            if f == 'rs':
                if isinstance(sl, ast.Slice) and sl.lower is None and sl.upper is None:
                    return ('rs',)
                raise fdx.Unsupported('rs indexing ' + ast.unparse(node))
            if isinstance(sl, ast.Tuple) and len(sl.elts) == 2 and isinstance(sl.elts[0], ast.Slice):
                return (f, it.ev(sl.elts[1]))
            raise fdx.Unsupported('column indexing ' + ast.unparse(node))
        return None

    def call_hook(call, it):
        f = call.func
        if isinstance(f, ast.Attribute) and isinstance(f.value, ast.Name) and f.value.id == 'self' and f.attr in ci.methods:
            a = [it.ev(x) for x in call.args]
            _tableau_interp(repo, ci, f.attr, a, cells)
            return None
        return NotImplemented

    it = fdx.Interp(env, cells, cell_key, call_hook)
    it.call(fn)
    return cells


def run(ctx):
    repo = ctx.repo
    _no_memoised_hash_on_mutable(ctx, repo)
    _from_op_list_unitary_guard(ctx, repo)
    _clifford_pow_is_repeated_product(ctx, repo)
    _global_shift_reaches_phase(ctx, repo)
    shared.act_on_routes_qubits_rule(ctx, 'C13.l', floor=3)
    ctx.decided.append('C13.l every state update in an _act_on_ is routed through the qubits the gate is applied to')
    ctx.decided += [
        'C13.a tableau update rules == Pauli conjugation tables of the textbook gates, for every exponent class, over the complete input domain',
        'C13.b rowsum phase function g == Pauli product phase; row decoder == Aaronson-Gottesman encoding',
        'C13.c dispatcher: tested gate class -> rule of that gate, with axes, exponent and global shift; SWAP as three CX',
        'C13.d both stabilizer representations classify every exponent alike (identity / acts / ValueError) and as the gate family requires',
    ]
    ctx.not_decided += ['CH-form update algebra and amplitudes', 'measurement and rowsum loops', 'CliffordGate.from_unitary / decomposition / group laws']
    shared.seed_restart_rule(ctx, 'C13.h', ['cirq-core/cirq/'], floor=2, only_files=['qis/clifford_tableau.py', 'sim/clifford/stabilizer_state_ch_form.py', 'qis/quantum_state_representation.py', 'sim/clifford/clifford_simulator.py', 'sim/clifford/stabilizer_sampler.py'])
    ctx.decided.append('C13.h measure() of both stabilizer representations draws every axis from one generator (no per-axis restart of an integer seed)')
    _independent_draws(ctx, repo)
    ci = repo.cls(TAB)
    rel = ci.mod.rel

    # ------------------------------------------------------------------ C13.a
    ctx.rule('C13.a', 'finite-domain extraction: for gate g in {X,Y,Z,H,CZ,CX} and every exponent class, the (x,z,r) -> (x\',z\',r\') map '
             'computed by CliffordTableau.apply_g on the touched columns equals conjugation of the encoded Pauli by the textbook '
             'matrix of g**exponent (all 8 resp. 32 input points); non-Clifford exponents raise', floor=40, style='FDX')
    points = 0
    for g in ('x', 'y', 'z', 'h', 'cz', 'cx'):
        mname = f'apply_{g}'
        if mname not in ci.methods:
            raise AnalysisError(f'CliffordTableau.{mname} vanished')
        n = ARITY[g]
        for e in EXPS[g]:
            u = _gate(g, e)
            bad = None
            try:
                for bits in itertools.product([0, 1], repeat=2 * n + 1):
                    xs, zs, r = bits[:n], bits[n:2 * n], bits[-1]
                    cells = {('rs',): fdx.Bit(r)}
                    for k in range(n):
                        cells[('xs', k)] = fdx.Bit(xs[k])
                        cells[('zs', k)] = fdx.Bit(zs[k])
                    _tableau_interp(repo, ci, mname, list(range(n)) + [e], cells)
                    got = (tuple(int(cells[('xs', k)]) for k in range(n)), tuple(int(cells[('zs', k)]) for k in range(n)), int(cells[('rs',)]))
                    want = _conj(u, [PAULI[(xs[k], zs[k])] for k in range(n)], r)
                    points += 1
                    if want is None:
                        raise AnalysisError(f'reference: {g}**{e} is not Clifford')
                    if got != (tuple(want[0]), tuple(want[1]), want[2]) and bad is None:
                        bad = (bits, got, want)
            except fdx.Raised as ex:
                bad = ('raise', str(ex), 'a Clifford exponent must be accepted')
            except fdx.Unsupported as ex:
                raise AnalysisError(f'cannot interpret CliffordTableau.{mname}: {ex}')
            ok = bad is None
            ctx.ob('C13.a', f'{TAB}.{mname}:exponent={e}', ok,
                   '' if ok else f'apply_{g}(exponent={e}) maps (x,z,r)={bad[0]} to {bad[1]} but conjugation by {g.upper()}**{e} gives {bad[2]}',
                   rel, ci.methods[mname].lineno, construct=f'{mname}:{e % 2 if g in "xyz" else e % 2}')
        for e in BAD_EXPS[g]:
            raised = False
            try:
                cells = {('rs',): fdx.Bit(0)}
                for k in range(n):
                    cells[('xs', k)] = fdx.Bit(1)
                    cells[('zs', k)] = fdx.Bit(0)
                _tableau_interp(repo, ci, mname, list(range(n)) + [e], cells)
            except fdx.Raised:
                raised = True
            except fdx.Unsupported as ex:
                raise AnalysisError(f'cannot interpret CliffordTableau.{mname}: {ex}')
            ctx.ob('C13.a', f'{TAB}.{mname}:rejects:{e}', raised, '' if raised else f'apply_{g} accepts the non-Clifford exponent {e} silently', rel, ci.methods[mname].lineno)
    ctx.notes.append(f'C13.a evaluated {points} input points')

    # ------------------------------------------------------------------ C13.b
    ctx.rule('C13.b', 'g(x1,z1,x2,z2) of _rowsum equals the power of i in the product of the two encoded Paulis (16 points, mod 4); '
             '_row_to_dense_pauli decodes (x,z) as I/X/Y/Z per the encoding and rs as the sign', floor=2, style='FDX')
    rs = ci.methods.get('_rowsum')
    if rs is None:
        raise AnalysisError('CliffordTableau._rowsum vanished')
    # the phase function by role: the four-argument function _rowsum calls (nested, or a module-level helper), whatever it is called
    gfn = []
    for c in ast.walk(rs):
        if isinstance(c, ast.Call) and isinstance(c.func, ast.Name) and len(c.args) + len(c.keywords) == 4:
            cand = [n for n in ast.walk(rs) if isinstance(n, ast.FunctionDef) and n.name == c.func.id] or \
                ([ci.mod.defs[c.func.id]] if isinstance(ci.mod.defs.get(c.func.id), ast.FunctionDef) else [])
            if cand and len(cand[0].args.args) == 4:
                gfn = cand
                break
    if not gfn:
        raise AnalysisError('_rowsum: the four-argument phase function (g) vanished')
    gp = [a.arg for a in gfn[0].args.args]
    bad = None
    for x1, z1, x2, z2 in itertools.product([0, 1], repeat=4):
        it = fdx.Interp({gp[0]: fdx.Bit(x1), gp[1]: fdx.Bit(z1), gp[2]: fdx.Bit(x2), gp[3]: fdx.Bit(z2)})
        try:
            got = it.call(gfn[0])
        except (fdx.Unsupported, fdx.Raised) as ex:
            raise AnalysisError(f'cannot interpret g: {ex}')
        prod = PAULI[(x1, z1)] @ PAULI[(x2, z2)]
        tgt = PAULI[(x1 ^ x2, z1 ^ z2)]
        want = None
        for k in range(4):
            if np.allclose(prod, (1j ** k) * tgt):
                want = k
        if want is None or (got - want) % 4 != 0:
            bad = bad or ((x1, z1, x2, z2), got, want)
    ctx.ob('C13.b', f'{TAB}._rowsum.g', bad is None, '' if bad is None else f'g{bad[0]} = {bad[1]} but the Pauli product phase exponent is {bad[2]} (mod 4)', rel, gfn[0].lineno)
    # rowsum combines: r = 2 r1 + 2 r2 + sum g, mod 4, stored as bool; xs/zs XORed
    src = ast.unparse(rs)
    ok = '%= 4' in src.replace('r %= 4', '%= 4') and src.count('^=') >= 2 and '2 * int(self._rs[q1]) + 2 * int(self._rs[q2])' in src
    ctx.ob('C13.b', f'{TAB}._rowsum:combine', ok, '' if ok else 'rowsum no longer combines 2*r1 + 2*r2 + sum g modulo 4 and XORs the x/z rows', rel, rs.lineno)
    rd = ci.methods.get('_row_to_dense_pauli')
    if rd is None:
        raise AnalysisError('_row_to_dense_pauli vanished')
    chain = [n for n in ast.walk(rd) if isinstance(n, ast.If) and 'xs' in ast.unparse(n.test)]
    dec_ok = True
    seen = {}
    if chain:
        for test, body in chains.if_chain(chain[0]):
            lit = [c.value for s in body for c in ast.walk(s) if isinstance(c, ast.Constant) and isinstance(c.value, str)]
            if test is None:
                if lit:
                    seen['else'] = lit[0]
                continue
            for x, z in itertools.product([0, 1], repeat=2):
                cells = {('xs', 'i', 'k'): x, ('zs', 'i', 'k'): z}

                def ck(node, it, cells=cells):
                    v = node.value
                    if isinstance(v, ast.Attribute) and v.attr in ('xs', 'zs'):
                        return (v.attr, 'i', 'k')
                    return None
                it = fdx.Interp({'i': 'i', 'k': 'k'}, cells, ck)
                try:
                    if it.ev(test) and (x, z) not in seen:
                        seen[(x, z)] = lit[0] if lit else None
                except fdx.Unsupported as ex:
                    raise AnalysisError(f'_row_to_dense_pauli: {ex}')
        want = {(1, 0): 'X', (0, 1): 'Z', (1, 1): 'Y'}
        for k, v in want.items():
            if seen.get(k) != v:
                dec_ok = False
        if seen.get((0, 0), seen.get('else')) != 'I':
            dec_ok = False
    else:
        dec_ok = False
    ctx.ob('C13.b', f'{TAB}._row_to_dense_pauli:decoding', dec_ok, '' if dec_ok else f'row decoder maps (x,z) cells to {seen} instead of (1,0)->X,(0,1)->Z,(1,1)->Y,(0,0)->I', rel, rd.lineno)
    coef = [n for n in ast.walk(rd) if isinstance(n, ast.IfExp) and 'rs' in ast.unparse(n.test)]
    ok = bool(coef) and ast.unparse(coef[0].body) == '-1' and ast.unparse(coef[0].orelse) == '1'
    ctx.ob('C13.b', f'{TAB}._row_to_dense_pauli:sign', ok, '' if ok else 'row decoder does not take rs=1 as the sign -1', rel, rd.lineno)

    # ------------------------------------------------------------------ C13.c
    ctx.rule('C13.c', 'StabilizerSimulationState._strat_apply_gate: guarded by has_stabilizer_effect; each isinstance branch calls the rule of '
             'that gate with the right number of axes, `exponent` and `gate.global_shift`; SWAP is CX(a,b) CX(b,a)^e CX(a,b)', floor=9, style='WR')
    ss = repo.cls('cirq.sim.clifford.stabilizer_simulation_state.StabilizerSimulationState')
    fn = repo.method(ss.qual, '_strat_apply_gate')
    srel = ss.mod.rel
    # the refusal must dominate the dispatch chain: a top-level `if not has_stabilizer_effect(val): return NotImplemented`
    # placed before the first statement that reaches a tableau rule
    from ..core import call_name as _cn
    ok = False
    for st in fn.body:
        if isinstance(st, ast.If) and isinstance(st.test, ast.UnaryOp) and isinstance(st.test.op, ast.Not) and isinstance(st.test.operand, ast.Call) \
                and _cn(st.test.operand) == 'has_stabilizer_effect' and not st.orelse \
                and isinstance(st.body[-1], ast.Return) and isinstance(st.body[-1].value, ast.Name) and st.body[-1].value.id == 'NotImplemented':
            ok = True
            break
        if any(isinstance(n, ast.Attribute) and n.attr.startswith('apply_') or (isinstance(n, ast.Attribute) and n.attr == '_swap') for n in ast.walk(st)):
            break
    ctx.ob('C13.c', f'{ss.qual}._strat_apply_gate:stabilizer-guard', ok, '' if ok else 'gates without stabilizer effect are no longer refused before dispatch', srel, fn.lineno)
    start = chains.longest_chain(fn, lambda t: chains.isinstance_classes(t) is not None)
    if start is None:
        raise AnalysisError('_strat_apply_gate: dispatch chain vanished')
    WANT = {'XPowGate': ('apply_x', 1), 'YPowGate': ('apply_y', 1), 'ZPowGate': ('apply_z', 1), 'HPowGate': ('apply_h', 1),
            'CXPowGate': ('apply_cx', 2), 'CZPowGate': ('apply_cz', 2), 'SwapPowGate': ('_swap', 2)}
    found = set()
    for test, body in chains.if_chain(start):
        if test is None:
            ok = any(isinstance(s, ast.Return) and 'NotImplemented' in ast.unparse(s) for s in body)
            ctx.ob('C13.c', f'{ss.qual}._strat_apply_gate:else-not-implemented', ok, '' if ok else 'unknown gates are silently treated as applied', srel, fn.lineno)
            continue
        cls = chains.isinstance_classes(test)
        cname = (dotted(cls[0]) or '').split('.')[-1]
        if cname not in WANT:
            continue
        found.add(cname)
        rule, nax = WANT[cname]
        calls = [c for s in body for c in ast.walk(s) if isinstance(c, ast.Call) and call_name(c) == rule]
        ok = bool(calls)
        msg = '' if ok else f'{cname} branch does not call {rule}'
        if ok:
            c = calls[0]
            G = chains.test_subject(test)
            # locals standing for the axes of the qubits and for the gate's exponent (whatever they are called)
            axes_names = {st.targets[0].id for st in ast.walk(fn) if isinstance(st, ast.Assign) and isinstance(st.targets[0], ast.Name)
                          and isinstance(st.value, ast.Call) and call_name(st.value) == 'get_axes'}
            exp_names = {st.targets[0].id for st in ast.walk(fn) if isinstance(st, ast.Assign) and isinstance(st.targets[0], ast.Name)
                         and any(isinstance(x, ast.Constant) and x.value == 'exponent' for x in ast.walk(st.value))
                         or (isinstance(st, ast.Assign) and isinstance(st.targets[0], ast.Name) and isinstance(st.value, ast.Attribute) and st.value.attr == 'exponent')}

            def norm(a):
                if isinstance(a, ast.Subscript) and isinstance(a.value, ast.Name) and a.value.id in axes_names and isinstance(a.slice, ast.Constant):
                    return f'axes[{a.slice.value}]'
                if isinstance(a, ast.Name) and a.id in exp_names:
                    return 'exponent'
                if isinstance(a, ast.Attribute) and isinstance(a.value, ast.Name) and a.value.id == G:
                    return f'gate.{a.attr}'
                return ast.unparse(a)
            args = [norm(a) for a in c.args]
            want_args = [f'axes[{i}]' for i in range(nax)] + ['exponent', 'gate.global_shift']
            if args != want_args:
                ok = False
                msg = f'{cname} branch calls {rule}({", ".join(args)}) (expected {", ".join(want_args)})'
        ctx.ob('C13.c', f'{ss.qual}._strat_apply_gate:{cname}', ok, msg, srel, test.lineno)
    miss = set(WANT) - found
    ctx.ob('C13.c', f'{ss.qual}._strat_apply_gate:all-gates', not miss, '' if not miss else f'no dispatch branch for {sorted(miss)}', srel, fn.lineno)
    sw = repo.method(ss.qual, '_swap')
    cx = [c for c in ast.walk(sw) if isinstance(c, ast.Call) and call_name(c) == 'apply_cx']
    p = [a.arg for a in sw.args.args[1:3]]
    ok = len(cx) == 3
    if ok:
        a0 = [ast.unparse(a) for a in cx[0].args]
        a1 = [ast.unparse(a) for a in cx[1].args]
        a2 = [ast.unparse(a) for a in cx[2].args]
        ok = a0[:2] == p and a2[:2] == p and a1[:2] == p[::-1] and a1[2:] == ['exponent', 'global_shift'] and len(a0) == 2 and len(a2) == 2
    ctx.ob('C13.c', f'{ss.qual}._swap', ok, '' if ok else 'SWAP is not CX(a,b) . CX(b,a)**exponent . CX(a,b)', srel, sw.lineno)

    # ------------------------------------------------------------------ C13.d
    ctx.rule('C13.d', 'exponent classification: for every probe exponent both CliffordTableau and StabilizerStateChForm do nothing '
             '(exponent = 0 mod 2), raise ValueError (not a Clifford power) or act - identically, and as the gate family requires', floor=60, style='COH')
    ch = repo.cls(CH)
    for g in ('x', 'y', 'z', 'h', 'cz', 'cx'):
        n = ARITY[g]
        for e in EXPS[g] + BAD_EXPS[g]:
            want = 'identity' if e % 2 == 0 else ('raise' if (e % 0.5 != 0 if g in 'xyz' else e % 1 != 0) else 'acts')
            res = {}
            for c in (ci, ch):
                res[c.name] = _classify(c, f'apply_{g}', list(range(n)) + [e])
            ok = all(v == want for v in res.values())
            ctx.ob('C13.d', f'apply_{g}:exponent={e}', ok, '' if ok else f'for exponent {e} {res} (the gate family requires `{want}`)', ch.mod.rel,
                   ch.methods[f'apply_{g}'].lineno, construct=f'apply_{g}:{e}')

    _structure_rules(ctx, repo)
    _measurement_rule(ctx, repo)


class _Touched(Exception):
    pass


def _classify(ci, mname, args):
    fn = ci.methods.get(mname)
    if fn is None:
        raise AnalysisError(f'{ci.qual}.{mname} vanished')
    params = [a.arg for a in fn.args.args[1:]]
    env = {}
    for i, p in enumerate(params):
        if i < len(args):
            env[p] = args[i]
        else:
            d = fn.args.defaults[i - (len(params) - len(fn.args.defaults))]
            env[p] = ast.literal_eval(d)

    def cell_key(node, it):
        raise _Touched()

    def call_hook(call, it):
        raise _Touched()

    def attr_hook(node, it):
        if isinstance(node.value, ast.Name) and node.value.id == 'self':
            raise _Touched()
        return NotImplemented
    it = fdx.Interp(env, {}, cell_key, call_hook, attr_hook)

    class _DropPhase(ast.NodeTransformer):
        # `self.omega *= ...` only tracks the global phase of the CH form; it does not act on the stabilizer state
        def visit_AugAssign(self, node):
            t = node.target
            if isinstance(t, ast.Attribute) and t.attr == 'omega' and isinstance(t.value, ast.Name) and t.value.id == 'self':
                return ast.Pass()
            return node

        def visit_Assign(self, node):
            if isinstance(node.targets[0], ast.Name) and isinstance(node.value, ast.Call) and call_name(node.value) == '_phase':
                return ast.Pass()
            return node
    import copy as _copy
    fn = _DropPhase().visit(_copy.deepcopy(fn))
    try:
        it.call(fn)
    except _Touched:
        return 'acts'
    except fdx.Raised:
        return 'raise'
    except fdx.Unsupported:
        return 'acts'
    return 'identity'



def _structure_rules(ctx, repo):
    """C13.e / C13.f - permutation discipline of the stabilizer representations."""
    ctx.decided += ['C13.e StabilizerStateChForm.copy / reindex carry every array of the state and permute every one of them in the same direction',
                    'C13.f _pad_tableau places the gate tableau at the axes in the order given (no sorting / de-duplication of the index arrays)']
    ch = repo.cls(CH)
    rel = ch.mod.rel
    init = ch.methods.get('__init__')
    if init is None:
        raise AnalysisError('StabilizerStateChForm.__init__ vanished')
    ndim = {}
    for st in init.body:
        tgt = val = None
        if isinstance(st, ast.Assign) and len(st.targets) == 1:
            tgt, val = st.targets[0], st.value
        elif isinstance(st, ast.AnnAssign) and st.value is not None:
            tgt, val = st.target, st.value
        if isinstance(tgt, ast.Attribute) and isinstance(tgt.value, ast.Name) and tgt.value.id == 'self' and tgt.attr != 'n':
            if isinstance(val, ast.Call) and call_name(val) == 'eye':
                ndim[tgt.attr] = 2
            elif isinstance(val, ast.Call) and call_name(val) in ('zeros', 'ones'):
                ndim[tgt.attr] = 2 if val.args and isinstance(val.args[0], ast.Tuple) and len(val.args[0].elts) == 2 else 1
            else:
                ndim[tgt.attr] = 0
    if len(ndim) < 6:
        raise AnalysisError(f'StabilizerStateChForm.__init__: expected the CH-form arrays, found {sorted(ndim)}')
    ctx.rule('C13.e', 'StabilizerStateChForm.copy and .reindex assign every state array of __init__ on the new object; reindex gathers every array with the '
             'given axes (matrices on both dimensions) - mixing gather and scatter permutes some components by the inverse permutation', floor=14, style='COH')
    for mn in ('copy', 'reindex'):
        fn = ch.methods.get(mn)
        if fn is None:
            raise AnalysisError(f'StabilizerStateChForm.{mn} vanished')
        new_names = {t.id for st in fn.body if isinstance(st, ast.Assign) and isinstance(st.value, ast.Call) and call_name(st.value) in (ch.name, 'type')
                     for t in st.targets if isinstance(t, ast.Name)}
        assigned = {}
        scattered = {}
        for st in ast.walk(fn):
            if isinstance(st, ast.Assign) and len(st.targets) == 1:
                t = st.targets[0]
                if isinstance(t, ast.Attribute) and isinstance(t.value, ast.Name) and t.value.id in new_names:
                    assigned[t.attr] = st.value
                if isinstance(t, ast.Subscript) and isinstance(t.value, ast.Attribute) and isinstance(t.value.value, ast.Name) and t.value.value.id in new_names:
                    scattered[t.value.attr] = st
        ax = fn.args.args[1].arg if mn == 'reindex' and len(fn.args.args) > 1 else None
        for f, d in sorted(ndim.items()):
            key = f'{ch.qual}.{mn}:{f}'
            if f in scattered and f not in assigned:
                ctx.ob('C13.e', key, False, f'{mn} writes {f} by scattering (new.{f}[{ax}] = self.{f}): that applies the inverse of the permutation the other arrays get', rel, scattered[f].lineno)
                continue
            if f not in assigned:
                ctx.ob('C13.e', key, False, f'{mn} does not carry {f} to the new state (it keeps the value of a fresh |0..0>)', rel, fn.lineno)
                continue
            v = assigned[f]
            src = ast.unparse(v)
            ok = f'self.{f}' in src
            msg = '' if ok else f'{mn} assigns {f} from something other than self.{f}'
            if ok and mn == 'reindex' and d > 0:
                want1 = f'self.{f}[{ax}]'
                if d == 1:
                    ok = src == want1
                else:
                    ok = src in (f'self.{f}[{ax}][:, {ax}]', f'self.{f}[np.ix_({ax}, {ax})]', f'self.{f}[:, {ax}][{ax}]')
                msg = '' if ok else f'reindex does not gather {f} (a {d}-dimensional array) by `{ax}` on ' + ('its dimension' if d == 1 else 'both dimensions') + f': {src}'
            ctx.ob('C13.e', key, ok, msg, rel, v.lineno)

    ctx.rule('C13.f', '_pad_tableau: every index expression derived from `axes` is built by order-preserving operations only (asarray / array / concatenate / arithmetic); '
             'sorting or de-duplicating (np.unique, sorted, set, np.sort) would attach the gate\'s i-th qubit to the wrong axis', floor=3, style='TNT')
    cg = repo.module('cirq-core/cirq/ops/clifford_gate.py')
    fn = cg.defs.get('_pad_tableau')
    if fn is None:
        raise AnalysisError('_pad_tableau vanished')
    ORDER_BREAKING = {'unique', 'sorted', 'set', 'sort', 'argsort', 'frozenset', 'flip', 'reversed'}
    derived = {'axes': []}
    for st in fn.body:
        if isinstance(st, ast.Assign) and len(st.targets) == 1 and isinstance(st.targets[0], ast.Name):
            names = {n.id for n in ast.walk(st.value) if isinstance(n, ast.Name)}
            if names & set(derived):
                calls = [call_name(c) for c in ast.walk(st.value) if isinstance(c, ast.Call)]
                inherited = [b for nm in names & set(derived) for b in derived[nm]]
                derived[st.targets[0].id] = inherited + [c for c in calls if c in ORDER_BREAKING]
    n_idx = 0
    for st in ast.walk(fn):
        if isinstance(st, ast.Subscript) and isinstance(st.ctx, ast.Store):
            names = {n.id for n in ast.walk(st.slice) if isinstance(n, ast.Name)} & set(derived)
            if not names:
                continue
            n_idx += 1
            breaking = sorted({b for nm in names for b in derived[nm]} | {call_name(c) for c in ast.walk(st.slice) if isinstance(c, ast.Call) and call_name(c) in ORDER_BREAKING})
            ctx.ob('C13.f', f'cirq.ops.clifford_gate._pad_tableau:{ast.unparse(st.value)}', not breaking,
                   '' if not breaking else f'the index of {ast.unparse(st.value)} passes through {breaking}: the order of `axes` is lost', cg.rel, st.lineno)
    if n_idx == 0:
        raise AnalysisError('_pad_tableau: no store indexed by the axes found')


# ---------------------------------------------------------------------------------------------------- measurement
def _ag_g(x1, z1, x2, z2):
    if not x1 and not z1:
        return 0
    if x1 and z1:
        return int(z2) - int(x2)
    if x1 and not z1:
        return int(z2) * (2 * int(x2) - 1)
    return int(x2) * (1 - 2 * int(z2))


class _RefTableau:
    """Aaronson-Gottesman tableau (reference implementation in the checker): rows 0..n-1 destabilizers, n..2n-1 stabilizers."""

    def __init__(self, n):
        self.n = n
        self.xs = np.zeros((2 * n, n), dtype=bool)
        self.zs = np.zeros((2 * n, n), dtype=bool)
        self.rs = np.zeros(2 * n, dtype=bool)
        for i in range(n):
            self.xs[i, i] = True
            self.zs[n + i, i] = True

    def copy(self):
        t = _RefTableau(self.n)
        t.xs, t.zs, t.rs = self.xs.copy(), self.zs.copy(), self.rs.copy()
        return t

    def h(self, a):
        self.rs ^= self.xs[:, a] & self.zs[:, a]
        self.xs[:, a], self.zs[:, a] = self.zs[:, a].copy(), self.xs[:, a].copy()

    def s(self, a):
        self.rs ^= self.xs[:, a] & self.zs[:, a]
        self.zs[:, a] ^= self.xs[:, a]

    def cx(self, a, b):
        self.rs ^= self.xs[:, a] & self.zs[:, b] & ~(self.xs[:, b] ^ self.zs[:, a])
        self.xs[:, b] ^= self.xs[:, a]
        self.zs[:, a] ^= self.zs[:, b]

    @staticmethod
    def _rowsum(xs, zs, rs, h, i, n):
        r = 2 * int(rs[h]) + 2 * int(rs[i])
        for j in range(n):
            r += _ag_g(xs[i, j], zs[i, j], xs[h, j], zs[h, j])
        rs[h] = bool(r % 4)
        xs[h, :] ^= xs[i, :]
        zs[h, :] ^= zs[i, :]

    def measure(self, a, bit):
        n = self.n
        p = next((i for i in range(n, 2 * n) if self.xs[i, a]), None)
        if p is None:
            xs = np.vstack([self.xs, np.zeros((1, n), dtype=bool)])
            zs = np.vstack([self.zs, np.zeros((1, n), dtype=bool)])
            rs = np.append(self.rs, False)
            for i in range(n):
                if self.xs[i, a]:
                    self._rowsum(xs, zs, rs, 2 * n, n + i, n)
            return int(rs[2 * n])
        for i in range(2 * n):
            if i != p and self.xs[i, a]:
                self._rowsum(self.xs, self.zs, self.rs, i, p, n)
        self.xs[p - n, :] = self.xs[p, :]
        self.zs[p - n, :] = self.zs[p, :]
        self.rs[p - n] = self.rs[p]
        self.xs[p, :] = False
        self.zs[p, :] = False
        self.zs[p, a] = True
        self.rs[p] = bool(bit)
        return int(bit)


def _measurement_rule(ctx, repo):
    import itertools as _it
    ctx.decided.append('C13.g CliffordTableau._measure and _rowsum (interpreted) agree with the Aaronson-Gottesman measurement on every tableau reachable from |0..0> '
                       'with up to 3 gates on 2 qubits (and sampled 3-qubit ones), for both values of the random bit, including a second measurement after further gates')
    ctx.rule('C13.g', 'stabilizer measurement by interpretation: outcome and the whole tableau (destabilizers, stabilizers, signs) after _measure(q) equal the reference '
             'algorithm; histories measure - gates - measure are followed with the interpreted state carried along (scratch row included)', floor=3, style='FDX')
    ci = repo.cls(TAB)
    mfn, rfn = ci.methods.get('_measure'), ci.methods.get('_rowsum')
    if mfn is None or rfn is None:
        raise AnalysisError('CliffordTableau._measure / _rowsum vanished')

    def model_of(ref, scratch=None):
        n = ref.n
        _xs = np.vstack([ref.xs, np.zeros((1, n), dtype=bool)])
        _zs = np.vstack([ref.zs, np.zeros((1, n), dtype=bool)])
        _rs = np.append(ref.rs, False)
        if scratch is not None:
            _xs[2 * n], _zs[2 * n], _rs[2 * n] = scratch
        return {'n': n, '_xs': _xs, '_zs': _zs, '_rs': _rs, 'xs': _xs[:-1, :], 'zs': _zs[:-1, :], 'rs': _rs[:-1]}

    def interp_measure(model, a, bit):
        def call_hook(call, it):
            s_ = ast.unparse(call.func)
            if s_ == 'self._rowsum':
                sub = fdx.NumInterp({'self': model, rfn.args.args[1].arg: it.ev(call.args[0]), rfn.args.args[2].arg: it.ev(call.args[1])}, call_hook=call_hook)
                fdx.follow(sub, repo, ci, rfn)
                sub.call(rfn)
                return None
            if s_.endswith('.randint'):
                return bit
            return NotImplemented
        it = fdx.NumInterp({'self': model, mfn.args.args[1].arg: a, mfn.args.args[2].arg: 'PRNG'}, call_hook=call_hook)
        fdx.follow(it, repo, ci, mfn)   # helpers extracted from _measure / _rowsum are interpreted like the code they came from
        try:
            return it.call(mfn)
        except fdx.Unsupported as ex:
            raise AnalysisError(f'CliffordTableau._measure is outside the interpretable subset: {ex}')
    GATES2 = [('h', 0), ('h', 1), ('s', 0), ('s', 1), ('cx', 0, 1), ('cx', 1, 0)]

    def apply(ref, g):
        getattr(ref, g[0])(*g[1:])

    def apply_model(model, g):
        # the same reference gate acting on the interpreted arrays (rows 0..2n-1; the scratch row is left as the code left it)
        t = _RefTableau(model['n'])
        t.xs, t.zs, t.rs = model['xs'], model['zs'], model['rs']      # views: in place
        if g[0] == 'h':
            a = g[1]
            t.rs ^= t.xs[:, a] & t.zs[:, a]
            tmp = t.xs[:, a].copy()
            t.xs[:, a] = t.zs[:, a]
            t.zs[:, a] = tmp
        else:
            getattr(t, g[0])(*g[1:])
    seqs = [()]
    for k in (1, 2, 3):
        seqs += list(_it.product(GATES2, repeat=k))
    seen = set()
    n_cmp = 0
    bad = {}
    for seq in seqs:
        ref = _RefTableau(2)
        for g in seq:
            apply(ref, g)
        sig = (ref.xs.tobytes(), ref.zs.tobytes(), ref.rs.tobytes())
        if sig in seen:
            continue
        seen.add(sig)
        for a, bit in _it.product((0, 1), (0, 1)):
            r1 = ref.copy()
            m1 = model_of(ref)
            want = r1.measure(a, bit)
            got = interp_measure(m1, a, bit)
            n_cmp += 1
            same = got == want and np.array_equal(m1['xs'], r1.xs) and np.array_equal(m1['zs'], r1.zs) and np.array_equal(m1['rs'], r1.rs)
            key = 'first-measurement'
            if not same:
                bad.setdefault(key, f'after {seq or "no gates"} measuring qubit {a} (random bit {bit}): outcome {got} / tableau differ from the reference (outcome {want})')
                continue
            # a second measurement after two more gates, on the state the interpreted code left behind
            TAILS = (((('cx', a, 1 - a)), ('h', a)), (('h', 1 - a), ('cx', 1 - a, a)), (('s', a), ('h', a)))
            for tail in (TAILS if ctx.tier == 'thorough' else TAILS[:1]):
                for b in (0, 1):
                    r2 = r1.copy()
                    m2 = {k_: (v.copy() if isinstance(v, np.ndarray) else v) for k_, v in m1.items() if k_.startswith('_') or k_ == 'n'}
                    m2['xs'], m2['zs'], m2['rs'] = m2['_xs'][:-1, :], m2['_zs'][:-1, :], m2['_rs'][:-1]
                    for g in tail:
                        apply(r2, g)
                        apply_model(m2, g)
                    for bit2 in (0, 1):
                        r3, m3 = r2.copy(), {k_: (v.copy() if isinstance(v, np.ndarray) else v) for k_, v in m2.items() if k_.startswith('_') or k_ == 'n'}
                        m3['xs'], m3['zs'], m3['rs'] = m3['_xs'][:-1, :], m3['_zs'][:-1, :], m3['_rs'][:-1]
                        want2 = r3.measure(b, bit2)
                        got2 = interp_measure(m3, b, bit2)
                        n_cmp += 1
                        if not (got2 == want2 and np.array_equal(m3['xs'], r3.xs) and np.array_equal(m3['zs'], r3.zs) and np.array_equal(m3['rs'], r3.rs)):
                            bad.setdefault('second-measurement', f'after {seq or "no gates"}, measure {a} (bit {bit}), {tail}, measuring qubit {b}: outcome {got2}, reference {want2}')
    # sampled three-qubit states
    rng = np.random.RandomState(11)
    G3 = [('h', q) for q in range(3)] + [('s', q) for q in range(3)] + [('cx', a, b) for a in range(3) for b in range(3) if a != b]
    for trial in range(120):
        ref = _RefTableau(3)
        for k in rng.randint(len(G3), size=(6 if trial < 40 else 9)):     # longer histories: outcomes that are certain with a sign made of i-phases (YY.XX = -ZZ)
            apply(ref, G3[k])
        for a in range(3):
            for bit in (0, 1):
                r1, m1 = ref.copy(), model_of(ref)
                want, got = r1.measure(a, bit), interp_measure(m1, a, bit)
                n_cmp += 1
                if not (got == want and np.array_equal(m1['xs'], r1.xs) and np.array_equal(m1['zs'], r1.zs) and np.array_equal(m1['rs'], r1.rs)):
                    bad.setdefault('three-qubit', f'three-qubit tableau, measuring qubit {a} (bit {bit}): outcome {got}, reference {want}')
    for key in ('first-measurement', 'second-measurement', 'three-qubit'):
        ctx.ob('C13.g', f'{TAB}._measure:{key}', key not in bad, bad.get(key, ''), ci.mod.rel, mfn.lineno)
    ctx.notes.append(f'C13.g compared {n_cmp} interpreted measurements on {len(seen)} distinct two-qubit tableaux and 120 three-qubit ones')
    if n_cmp < 100:
        raise AnalysisError('C13.g: too few measurement comparisons')


def _independent_draws(ctx, repo):
    """C13.i - one random bit per element: a scalar draw is never broadcast over a mask or slice."""
    ctx.decided.append('C13.i measurement randomness of both stabilizer representations: a single random draw is stored into a single array element, never broadcast through a mask / '
                       'slice / array index (several X-basis qubits need independent bits, or parities of them come out deterministic)')
    ctx.rule('C13.i', 'independent bits: in clifford_tableau.py and stabilizer_state_ch_form.py every statement `a[k] = ...prng.<draw>(...)...` whose draw has no size argument uses an index k '
             'that is not an array-valued expression (an attribute such as self.v, a slice, a comparison, an np.where / nonzero result)', floor=2, style='TNT')
    DRAWS = {'randint', 'random', 'rand', 'choice', 'binomial', 'integers', 'random_sample', 'uniform'}
    n = 0
    for rel in ('cirq-core/cirq/qis/clifford_tableau.py', 'cirq-core/cirq/sim/clifford/stabilizer_state_ch_form.py'):
        m = repo.module(rel)
        for fn in [f for f in ast.walk(m.tree) if isinstance(f, ast.FunctionDef)]:
            arrays = {a.targets[0].id for a in ast.walk(fn) if isinstance(a, ast.Assign) and len(a.targets) == 1 and isinstance(a.targets[0], ast.Name)
                      and any(isinstance(c, ast.Call) and (call_name(c) or '').split('.')[-1] in ('where', 'nonzero', 'flatnonzero', 'array', 'arange', 'astype') for c in ast.walk(a.value))
                      and not isinstance(a.value, ast.Subscript)}
            for st in ast.walk(fn):
                if not (isinstance(st, ast.Assign) and len(st.targets) == 1 and isinstance(st.targets[0], ast.Subscript)):
                    continue
                draws = [c for c in ast.walk(st.value) if isinstance(c, ast.Call) and isinstance(c.func, ast.Attribute) and c.func.attr in DRAWS
                         and not any(k.arg == 'size' for k in c.keywords) and len(c.args) <= 1]
                if not draws:
                    continue
                n += 1
                idx = st.targets[0].slice
                arrayish = isinstance(idx, (ast.Attribute, ast.Slice, ast.Compare, ast.BoolOp, ast.UnaryOp)) or (isinstance(idx, ast.Name) and idx.id in arrays) \
                    or (isinstance(idx, ast.Call) and (call_name(idx) or '').split('.')[-1] in ('where', 'nonzero', 'flatnonzero')) \
                    or (isinstance(idx, ast.Tuple) and any(isinstance(e, (ast.Slice, ast.Attribute)) for e in idx.elts))
                ctx.ob('C13.i', f'{m.name}.{fn.name}:{ast.unparse(st.targets[0])}', not arrayish, '' if not arrayish else
                       f'`{ast.unparse(st)[:80]}` stores one random draw through the array-valued index `{ast.unparse(idx)}`: every selected element gets the same bit, so e.g. the parity of '
                       'two X-basis qubits is always even', m.rel, st.lineno)
    if n == 0:
        raise AnalysisError('C13.i: no random draw stored into an array element found')


# ---------------------------------------------------------------------------------------------------------------------
def _no_memoised_hash_on_mutable(ctx, repo):
    """C13.j - a class that is updated in place cannot remember its hash: containers and caches keyed by it go stale."""
    from . import simrules
    ctx.decided.append('C13.j no class with in-place mutators memoises __hash__ (a cache keyed by a live tableau would return the gate of an earlier state)')
    ctx.rule('C13.j', 'no memoised hash on a mutable value: a class whose methods store into elements of its own fields (item stores, augmented stores, out=) does not cache __hash__ '
             '(cached_method / functools.cache / a stored _hash), unless every mutator invalidates it - functools.cache-d conversions keyed by such an object (from_clifford_tableau) '
             'return the result computed for an earlier content', floor=3, style='COH')
    n = 0
    for ci in sorted(repo.classes.values(), key=lambda c: c.qual):
        if '.testing.' in ci.qual or '.contrib.' in ci.qual:
            continue
        h = ci.methods.get('__hash__')
        if h is None:
            continue
        decs = [ast.unparse(d) for d in h.decorator_list]
        memo = any('cache' in d for d in decs) or any(isinstance(a, ast.Attribute) and a.attr.startswith('_hash') and isinstance(a.ctx, ast.Store) for a in ast.walk(h))
        if not memo:
            continue
        mut = simrules.mutated_fields(repo, ci)
        n += 1
        ok = not mut
        ctx.ob('C13.j', f'{ci.qual}.__hash__:memoised-on-mutable', ok, '' if ok else
               f'__hash__ is memoised ({decs or "stored"}) although {sorted(set(mut.values()))[:3]} change {sorted(mut)[:4]} in place: the hash (and every cache keyed by the object) keeps '
               'describing the content the object had when it was first hashed', ci.mod.rel, h.lineno)
    if n == 0:
        raise AnalysisError('C13.j: no memoised __hash__ found')


def _from_op_list_unitary_guard(ctx, repo):
    """C13.k - a Clifford *gate* built from operations: every accepted operation is a unitary with stabilizer effect."""
    ctx.decided.append('C13.k CliffordGate.from_op_list accepts an operation only if it has a stabilizer effect and a unitary (measurement and reset have the first, not the second)')
    ctx.rule('C13.k', 'gates from unitaries only: the acceptance test of CommonCliffordGates.from_op_list (the condition under which the loop continues instead of raising) is a conjunction '
             'that includes has_stabilizer_effect(...) and has_unitary(...) of the operation / its gate', floor=1, style='RG')
    ci = repo.cls('cirq.ops.clifford_gate.CommonCliffordGates')
    fn = ci.methods.get('from_op_list')
    if fn is None:
        raise AnalysisError('CommonCliffordGates.from_op_list vanished')
    tests = [i for i in ast.walk(fn) if isinstance(i, ast.If) and any(isinstance(s, ast.Continue) for s in i.body)]
    if not tests:
        raise AnalysisError('from_op_list: acceptance test (if ...: continue) not found')
    t = tests[0].test
    names = {(call_name(c) or '').split('.')[-1] for c in ast.walk(t) if isinstance(c, ast.Call)}
    conj = isinstance(t, ast.BoolOp) and isinstance(t.op, ast.And)
    ok = conj and {'has_stabilizer_effect', 'has_unitary'} <= names
    ctx.ob('C13.k', f'{ci.qual}.from_op_list:accepts', ok, '' if ok else
           f'operations are accepted under `{ast.unparse(t)[:90]}`: a measurement or reset passes (it has a stabilizer effect) and is applied to the scratch tableau with a fixed random '
           'outcome, so the returned "gate" is not the operation sequence', ci.mod.rel, tests[0].lineno)


def _clifford_pow_is_repeated_product(ctx, repo, rid='C13.m'):
    """C13.m - CliffordGate.__pow__(k) composes exactly k copies of the gate (or of its inverse)."""
    ctx.decided.append(f'{rid} CliffordGate.__pow__: the square-and-multiply loop, interpreted with tableaux modelled as integer powers of one element (then = +, inverse = -, the fresh '
                       'tableau = 0), returns the k-th power for every integer k in [-40, 40]')
    ctx.rule(rid, 'power == k-fold product: interpreting CliffordGate.__pow__ over the model group Z (a tableau is the integer power of the base gate it stands for; then() adds, '
             'inverse() negates, CliffordTableau(num_qubits=..) is 0), the result is the integer `exponent` for every probe exponent - a bit of the exponent that is skipped or used '
             'twice in the binary exponentiation shows up as another integer', floor=40, style='FDX')
    ci = repo.cls('cirq.ops.clifford_gate.CliffordGate')
    fn = ci.methods.get('__pow__')
    if fn is None:
        raise AnalysisError('CliffordGate.__pow__ vanished')

    class T:
        def __init__(self, k):
            self.k = k
            self.n = 1

    for k in list(range(-40, 41)):
        def call_hook(call, it):
            f = call.func
            s_ = ast.unparse(f)
            if isinstance(f, ast.Attribute) and f.attr in ('then', 'inverse', 'copy'):
                recv = it.ev(f.value)
                if isinstance(recv, T):
                    if f.attr == 'then':
                        o = it.ev(call.args[0])
                        if not isinstance(o, T):
                            raise fdx.Unsupported('then() of a non-tableau')
                        return T(recv.k + o.k)
                    if f.attr == 'inverse':
                        return T(-recv.k)
                    return T(recv.k)
            if s_.split('.')[-1] == 'CliffordTableau':
                return T(0)
            if s_.split('.')[-1] == 'from_clifford_tableau':
                return it.ev(call.args[0])
            if s_.endswith('_num_qubits_') or s_.endswith('num_qubits'):
                return 1
            return NotImplemented

        def attr_hook(node, it):
            try:
                v = it.ev(node.value)
            except fdx.Unsupported:
                return NotImplemented
            if isinstance(v, T) and node.attr in ('k', 'n'):
                return getattr(v, node.attr)
            return NotImplemented
        base = T(1)
        it = fdx.NumInterp({'self': {'clifford_tableau': base, '_clifford_tableau': base}, 'exponent': k}, call_hook=call_hook, attr_hook=attr_hook)
        try:
            out = it.call(fn)
        except (fdx.Unsupported, fdx.Raised) as ex:
            raise AnalysisError(f'CliffordGate.__pow__ is outside the interpretable subset: {ex}')
        got = 1 if isinstance(out, dict) else (out.k if isinstance(out, T) else None)     # `return self` is the first power
        ok = got == k
        ctx.ob(rid, f'{ci.qual}.__pow__:k={k}', ok, '' if ok else
               f'g**{k} is composed as g**{got}: the binary exponentiation skips or repeats a factor (g**3 * g**3 would differ from g**6)', ci.mod.rel, fn.lineno, construct=f'{ci.qual}.__pow__')


def _global_shift_reaches_phase(ctx, repo):
    """C13.n - in a representation that tracks the global phase, the global shift of a gate reaches it on every path."""
    from ..flow import PathWalker, name_deps
    rid = 'C13.n'
    ctx.decided.append('C13.n in every stabilizer representation that keeps a global phase (some method multiplies a field by a value computed from global_shift), each method taking '
                       'global_shift passes, on every normally ending path, through an update of that field (or a call on self that forwards global_shift)')
    ctx.rule(rid, 'the global shift always lands: in a class of cirq.sim.clifford / cirq.qis where some method updates a field from its `global_shift` parameter (the phase carrier), every '
             'method with a `global_shift` parameter executes, on every path that ends without raising, a statement that updates the carrier from global_shift or a self-call that '
             'forwards it - a path that skips it (e.g. the even-exponent shortcut) treats a gate like rx(2 pi) = -I as +I, a relative phase once the gate is controlled or the state '
             'compared with another simulator', floor=6, style='MPT')
    n = 0
    for ci in sorted(repo.classes.values(), key=lambda c: c.qual):
        if not (ci.mod.rel.startswith('cirq-core/cirq/sim/clifford/') or ci.mod.rel.startswith('cirq-core/cirq/qis/')) or ci.mod.rel.endswith('_test.py'):
            continue
        meths = {mn: fn for mn, fn in ci.methods.items() if any(a.arg == 'global_shift' for a in fn.args.args + fn.args.kwonlyargs)}
        if not meths:
            continue

        def carrier_updates(fn):
            deps = name_deps(fn, {'global_shift': {'global_shift'}})
            out = []
            for st in ast.walk(fn):
                if isinstance(st, (ast.Assign, ast.AugAssign)):
                    tg = st.targets if isinstance(st, ast.Assign) else [st.target]
                    if any(isinstance(t, ast.Attribute) and isinstance(t.value, ast.Name) and t.value.id == 'self' for t in tg):
                        used = {x.id for x in ast.walk(st.value) if isinstance(x, ast.Name)}
                        if 'global_shift' in used or any('global_shift' in deps.get(u, ()) for u in used):
                            out.append(st)
            return out
        carriers = set()
        for fn in meths.values():
            for st in carrier_updates(fn):
                for t in (st.targets if isinstance(st, ast.Assign) else [st.target]):
                    if isinstance(t, ast.Attribute):
                        carriers.add(t.attr)
        if not carriers:
            continue  # the representation keeps no global phase (CliffordTableau): the parameter is documented as ignored
        for mn, fn in sorted(meths.items()):
            ups = set(map(id, carrier_updates(fn)))
            deps = name_deps(fn, {'global_shift': {'global_shift'}})

            def lands(node):
                if id(node) in ups:
                    return True
                for c in ast.walk(node):
                    if isinstance(c, ast.Call) and isinstance(c.func, ast.Attribute) and isinstance(c.func.value, ast.Name) and c.func.value.id == 'self' \
                            and c.func.attr in meths and c.func.attr != mn:
                        args = list(c.args) + [k.value for k in c.keywords]
                        if any(isinstance(x, ast.Name) and (x.id == 'global_shift' or 'global_shift' in deps.get(x.id, ())) for a in args for x in ast.walk(a)):
                            return True
                return False

            # the only arithmetic the walker knows: after `if exponent % 0.5 != 0: raise`, exponent % 2 is one of 0, 0.5, 1, 1.5, so an
            # if / elif ladder over `exponent % 2 == c` that has refused all four has no fall-through
            def residue_test(test):
                if isinstance(test, ast.Compare) and len(test.ops) == 1 and isinstance(test.left, ast.BinOp) and isinstance(test.left.op, ast.Mod) \
                        and isinstance(test.left.left, ast.Name) and isinstance(test.left.right, ast.Constant) and isinstance(test.comparators[0], ast.Constant):
                    return test.left.left.id, float(test.left.right.value), type(test.ops[0]).__name__, float(test.comparators[0].value)
                return None

            def branch(test, pol, st):
                landed, half, excl = st
                r = residue_test(test)
                if r is not None:
                    var, mod_, op, c = r
                    if mod_ == 0.5 and c == 0.0 and ((op == 'NotEq' and not pol) or (op == 'Eq' and pol)):
                        half = half | {var}
                    if mod_ == 2.0 and ((op == 'Eq' and not pol) or (op == 'NotEq' and pol)):
                        excl = excl | {(var, c)}
                    if any(v in half and {(v, 0.0), (v, 0.5), (v, 1.0), (v, 1.5)} <= excl for v in half):
                        return []
                return [(landed, half, excl)]

            w = PathWalker(lambda node, st: [(st[0] or lands(node), st[1], st[2])], branch)
            try:
                exits = w.run(fn, (False, frozenset(), frozenset()))
            except RuntimeError as e:
                ctx.unres(rid, f'{ci.qual}.{mn}', str(e), ci.mod.rel, fn.lineno)
                continue
            bad = [(k, node) for k, st, node in exits if k != 'raise' and not st[0]]
            n += 1
            ctx.ob(rid, f'{ci.qual}.{mn}:shift-lands', not bad, '' if not bad else
                   f'a path ending at line {getattr(bad[0][1], "lineno", fn.lineno)} ({bad[0][0]}) never updates {sorted(carriers)} from global_shift: on that path the gate is applied '
                   'without its global phase', ci.mod.rel, fn.lineno)
    if n == 0:
        raise AnalysisError('C13.n: no phase-tracking stabilizer representation found')
