"""Decomposition == matrix for the table-defined gate families (finite-domain interpretation).

`_decompose_` bodies are interpreted (my AST evaluator) over symbolic gate values; library
gates they mention resolve through the repository's own definitions to (family, exponent,
global_shift) triples whose matrices come from the extracted eigen tables (validated by C03).
The product of the yielded operations is compared with the gate's own matrix, exactly.
"""
from __future__ import annotations

import ast
import itertools

import numpy as np

from ..core import AnalysisError, ClassInfo, FuncInfo, dotted
from .. import fdx, fold
from . import c03


class GateV:
    def __init__(self, fam, exponent=1.0, shift=0.0, kind='eigen', coefficient=None, n=None):
        self.fam, self.exponent, self.shift, self.kind, self.coefficient, self.n = fam, exponent, shift, kind, coefficient, n

    def __pow__(self, e):
        if self.kind == 'phase':
            return GateV(None, kind='phase', coefficient=self.coefficient ** e, n=0)
        if self.kind == 'identity':
            return self
        if self.kind == 'matrix':
            if e == 1:
                return self
            if e == -1:
                return GateV(None, kind='matrix', coefficient=np.conj(self.coefficient).T, n=self.n)
            raise fdx.Unsupported('power of a matrix-valued gate')
        return GateV(self.fam, self.exponent * e, self.shift, self.kind)

    def on(self, *qs):
        return OpV(self, list(qs))

    __call__ = on

    def on_each(self, *qs):
        flat = []
        for q in qs:
            if isinstance(q, (list, tuple)):
                flat += list(q)
            else:
                flat.append(q)
        return [OpV(self, [q]) for q in flat]

    def is_identity(self):
        return self.kind == 'phase' and abs(self.coefficient - 1) < 1e-12


class OpV:
    def __init__(self, gate, qubits):
        self.gate, self.qubits = gate, qubits

    def __pow__(self, e):
        return OpV(self.gate ** e, self.qubits)


def _flatten(tree, out):
    if tree is None:
        return
    if isinstance(tree, OpV):
        out.append(tree)
    elif isinstance(tree, (list, tuple)):
        for t in tree:
            _flatten(t, out)
    else:
        raise fdx.Unsupported(f'non-operation in OP_TREE: {type(tree).__name__}')


class Q:
    """A qubit value: idx = position in the gate's own qubit tuple; pos = location on a line (None = abstract qubit)."""

    def __init__(self, idx, pos=None):
        self.idx, self.pos = idx, pos
        if pos is not None:
            self.is_adjacent = lambda other: abs(self.pos - other.pos) == 1

    def __repr__(self):
        return f'q{self.idx}' + (f'@{self.pos}' if self.pos is not None else '')


class GenInterp(fdx.NumInterp):
    """NumInterp + generator semantics: `yield x` appends to self.out."""

    def __init__(self, env, **kw):
        super().__init__(env, **kw)
        self.out = []

    def run_stmt(self, st):
        if isinstance(st, ast.Expr) and isinstance(st.value, ast.Yield):
            self.out.append(self.ev(st.value.value) if st.value.value is not None else None)
            return
        if isinstance(st, ast.Expr) and isinstance(st.value, ast.YieldFrom):
            self.out.append(list(self.ev(st.value.value)))
            return
        super().run_stmt(st)

    def ev(self, n):
        if isinstance(n, ast.Starred):
            raise fdx.Unsupported('starred outside list')
        if isinstance(n, (ast.List, ast.Tuple)) and any(isinstance(e, ast.Starred) for e in n.elts):
            out = []
            for e in n.elts:
                if isinstance(e, ast.Starred):
                    out.extend(list(self.ev(e.value)))
                else:
                    out.append(self.ev(e))
            return out if isinstance(n, ast.List) else tuple(out)
        return super().ev(n)


def gate_matrix(repo, comps_cache, g: GateV):
    if g.kind == 'phase':
        return np.array([[g.coefficient]], dtype=complex)
    if g.kind == 'identity':
        return np.eye(2 ** g.n, dtype=complex)
    if g.kind == 'matrix':
        return np.asarray(g.coefficient, dtype=complex)
    key = g.fam
    if key not in comps_cache:
        ci = repo.cls(key)
        comps_cache[key], _ = c03._components(repo, ci, 2 if (key, 2) in c03.REFERENCE else None)
    comps = comps_cache[key]
    return sum(np.exp(1j * np.pi * g.exponent * (t + g.shift)) * m for t, m in comps)


def _embed(u, operands, n):
    from .c19 import _embed as e
    return e(u, operands, n)


FAMILIES = {cq for (cq, d) in c03.REFERENCE}


def make_env_hooks(repo, ci, fn, self_obj):
    """attr/call hooks resolving library gate names through the repository to GateV values."""
    mod = ci.mod
    named = {}
    for modname, table in c03.NAMED.items():
        for nm, (cls, kws) in table.items():
            named[(modname, nm)] = (cls, kws)

    def to_gate(res, node_src):
        # res: result of repo.resolve_in_func
        if isinstance(res, ClassInfo):
            fam = None
            for c in repo.mro(res):
                if c.qual in FAMILIES:
                    fam = c.qual
                    break
            if fam is None:
                if res.name == 'IdentityGate':
                    return lambda *a, **k: GateV(None, kind='identity', n=k.get('num_qubits', a[0] if a else 1))
                raise fdx.Unsupported(f'gate class {res.qual} has no extracted table')
            fixed_shift = -0.5 if res.name in ('Rx', 'Ry', 'Rz') else None

            def ctor(*a, **k):
                if fixed_shift is not None:
                    return GateV(fam, k.get('rads', a[0] if a else 0) / np.pi, fixed_shift)
                return GateV(fam, k.get('exponent', a[0] if a else 1.0), k.get('global_shift', 0.0))
            return ctor
        if isinstance(res, tuple) and res and res[0] == 'var':
            _, m, nm, node = res
            if (m.name, nm) in named:
                cls, kws = named[(m.name, nm)]
                c = repo.cls(f'{m.name}.{cls}') if f'{m.name}.{cls}' in repo.classes else None
                if cls.startswith('_Pauli'):
                    fam = {'_PauliX': 'cirq.ops.common_gates.XPowGate', '_PauliY': 'cirq.ops.common_gates.YPowGate', '_PauliZ': 'cirq.ops.common_gates.ZPowGate'}[cls]
                    return GateV(fam, 1.0, 0.0)
                if cls == 'IdentityGate':
                    return GateV(None, kind='identity', n=1)
                fam = None
                if c is not None:
                    for cc in repo.mro(c):
                        if cc.qual in FAMILIES:
                            fam = cc.qual
                if fam is None:
                    raise fdx.Unsupported(f'named constant {nm} has no extracted table')
                return GateV(fam, kws.get('exponent', 1.0), kws.get('global_shift', 0.0))
        return NotImplemented

    def attr_hook(node, it):
        if isinstance(node.value, ast.Name) and node.value.id == 'self':
            return NotImplemented
        d = dotted(node)
        if d and d.split('.')[0] not in it.env:
            res = repo.resolve_in_func(mod, fn, d)
            g = to_gate(res, d)
            if g is not NotImplemented:
                return g
        return NotImplemented

    def name_lookup(name):
        res = repo.resolve_in_func(mod, fn, name)
        return to_gate(res, name)

    def call_hook(call, it):
        f = call.func
        s = ast.unparse(f)
        if s.endswith('is_parameterized') or s.endswith('_is_parameterized_'):
            return False
        if isinstance(f, ast.Name) and f.id == 'hasattr' and len(call.args) == 2:
            return hasattr(it.ev(call.args[0]), it.ev(call.args[1]))
        if s.endswith('from_phase_and_exponent') and len(call.args) == 2:
            hp, e = it.ev(call.args[0]), it.ev(call.args[1])
            return GateV(None, kind='phase', coefficient=np.exp(1j * np.pi * hp * e), n=0)
        if s.endswith('global_phase_operation') and call.args:
            return OpV(GateV(None, kind='phase', coefficient=complex(it.ev(call.args[0])), n=0), [])
        if isinstance(f, ast.Attribute) and isinstance(f.value, ast.Name) and f.value.id == 'self' and f.attr in ci.methods:
            mfn = ci.methods[f.attr]
            static = any(ast.unparse(d_) == 'staticmethod' for d_ in mfn.decorator_list)
            mparams = mfn.args.args if static else mfn.args.args[1:]
            sub = GenInterp({'self': self_obj, **{a.arg: it.ev(v) for a, v in zip(mparams, call.args)}, **{k.arg: it.ev(k.value) for k in call.keywords if k.arg}},
                            call_hook=call_hook, attr_hook=attr_hook)
            sub.name_lookup = name_lookup
            r = sub.call(ci.methods[f.attr])
            return sub.out if sub.out else r
        if isinstance(f, ast.Name) and f.id not in it.env:
            g = name_lookup(f.id)
            if callable(g):
                return g(*[it.ev(a) for a in call.args], **{k.arg: it.ev(k.value) for k in call.keywords})
            if isinstance(g, GateV):
                return g.on(*[it.ev(a) for a in call.args])
        return NotImplemented
    return attr_hook, call_hook, name_lookup


def decomposition_unitary(repo, ci, mname, exponent, shift, n, comps_cache, extra_self=None, positions=None):
    fn = ci.methods[mname]
    self_obj = {'_exponent': exponent, 'exponent': exponent, '_global_shift': shift, 'global_shift': shift, '_dimension': 2, 'dimension': 2}
    self_obj.update(extra_self or {})
    attr_hook, call_hook, name_lookup = make_env_hooks(repo, ci, fn, self_obj)
    qs = tuple(Q(i, positions[i] if positions else None) for i in range(n))
    it = GenInterp({'self': self_obj, 'qubits': qs}, call_hook=call_hook, attr_hook=attr_hook)
    orig_ev = it.ev

    def ev(node):
        if isinstance(node, ast.Name) and node.id not in it.env and node.id not in it.builtins:
            g = name_lookup(node.id)
            if g is not NotImplemented:
                return g
        return orig_ev(node)
    it.ev = ev
    # method objects on GateV/OpV are plain python objects: Attribute access falls back to getattr
    base_attr = it.attr_hook

    def attr2(node, itp):
        r = base_attr(node, itp)
        if r is not NotImplemented:
            return r
        try:
            v = itp.ev(node.value)
        except fdx.Unsupported:
            return NotImplemented
        if isinstance(v, (GateV, OpV, Q)) and hasattr(v, node.attr):
            return getattr(v, node.attr)
        return NotImplemented
    it.attr_hook = attr2
    ret = it.call(fn)
    tree = it.out if it.out else ret
    if tree is None or tree is NotImplemented:
        return None
    ops = []
    _flatten(tree, ops)
    u = np.eye(2 ** n, dtype=complex)
    for op in ops:
        m = gate_matrix(repo, comps_cache, op.gate)
        if op.gate.kind == 'phase':
            u = m[0, 0] * u
            continue
        idxs = [q.idx for q in op.qubits]
        if len(set(idxs)) != len(idxs):
            raise fdx.Unsupported('repeated qubit in an operation')
        u = _embed(m, idxs, n) @ u
    return u, len(ops)
