"""C03 - every library gate has the matrix its documentation defines.

Decided: the literal eigen-decomposition tables of the EigenGate families are complete sets of
orthogonal projectors that encode the textbook matrix; named constants are built from the
documented family with the documented arguments; Rx/Ry/Rz convert radians to half-turns with
global_shift -1/2; Sycamore/Willow angles.
Not decided: closed forms that depend on runtime parameters (FSim, PhasedX(Z), channels,
QFT, diagonal/arithmetic gates), EigenGate._unitary_ itself.
"""
from __future__ import annotations

import ast
import math

import numpy as np

from ..core import func_param_defaults, AnalysisError, ClassInfo, call_name, dotted, kwarg
from .. import fdx, fold

I2 = np.eye(2, dtype=complex)
PX = np.array([[0, 1], [1, 0]], dtype=complex)
PY = np.array([[0, -1j], [1j, 0]], dtype=complex)
PZ = np.array([[1, 0], [0, -1]], dtype=complex)
HAD = np.array([[1, 1], [1, -1]], dtype=complex) / math.sqrt(2)


def _controlled(u, n_controls=1):
    d = u.shape[0]
    out = np.eye(d * 2 ** n_controls, dtype=complex)
    out[-d:, -d:] = u
    return out


SWAPM = np.array([[1, 0, 0, 0], [0, 0, 1, 0], [0, 1, 0, 0], [0, 0, 0, 1]], dtype=complex)
ISWAPM = np.array([[1, 0, 0, 0], [0, 0, 1j, 0], [0, 1j, 0, 0], [0, 0, 0, 1]], dtype=complex)
W3 = np.exp(2j * np.pi / 3)
# textbook matrices (big-endian) of each family at exponent 1, global_shift 0
REFERENCE = {
    ('cirq.ops.common_gates.XPowGate', 2): PX,
    ('cirq.ops.common_gates.XPowGate', 3): np.array([[0, 0, 1], [1, 0, 0], [0, 1, 0]], dtype=complex),   # |j> -> |j+1 mod 3>
    ('cirq.ops.common_gates.YPowGate', None): PY,
    ('cirq.ops.common_gates.ZPowGate', 2): PZ,
    ('cirq.ops.common_gates.ZPowGate', 3): np.diag([1, W3, W3 ** 2]),
    ('cirq.ops.common_gates.HPowGate', None): HAD,
    ('cirq.ops.common_gates.CZPowGate', None): _controlled(PZ),
    ('cirq.ops.common_gates.CXPowGate', None): _controlled(PX),
    ('cirq.ops.common_gates.CYPowGate', None): _controlled(PY),
    ('cirq.ops.parity_gates.XXPowGate', None): np.kron(PX, PX),
    ('cirq.ops.parity_gates.YYPowGate', None): np.kron(PY, PY),
    ('cirq.ops.parity_gates.ZZPowGate', None): np.kron(PZ, PZ),
    ('cirq.ops.swap_gates.SwapPowGate', None): SWAPM,
    ('cirq.ops.swap_gates.ISwapPowGate', None): ISWAPM,
    ('cirq.ops.three_qubit_gates.CCZPowGate', None): _controlled(PZ, 2),
    ('cirq.ops.three_qubit_gates.CCXPowGate', None): _controlled(PX, 2),
    ('cirq.ops.three_qubit_gates.CCYPowGate', None): _controlled(PY, 2),
}

# name -> (family class simple name, {kw: value}) : the documented definition of each named constant
NAMED = {
    'cirq.ops.common_gates': {
        'H': ('HPowGate', {}), 'S': ('ZPowGate', {'exponent': 0.5}), 'T': ('ZPowGate', {'exponent': 0.25}),
        'CZ': ('CZPowGate', {}), 'CNOT': ('CXPowGate', {}), 'CX': ('CXPowGate', {}), 'CY': ('CYPowGate', {}),
    },
    'cirq.ops.pauli_gates': {'X': ('_PauliX', {}), 'Y': ('_PauliY', {}), 'Z': ('_PauliZ', {})},
    'cirq.ops.swap_gates': {
        'SWAP': ('SwapPowGate', {}), 'ISWAP': ('ISwapPowGate', {}), 'ISWAP_INV': ('ISwapPowGate', {'exponent': -1}),
        'SQRT_ISWAP': ('ISwapPowGate', {'exponent': 0.5}), 'SQRT_ISWAP_INV': ('ISwapPowGate', {'exponent': -0.5}),
    },
    'cirq.ops.parity_gates': {'XX': ('XXPowGate', {}), 'YY': ('YYPowGate', {}), 'ZZ': ('ZZPowGate', {})},
    'cirq.ops.three_qubit_gates': {
        'CCZ': ('CCZPowGate', {}), 'CCX': ('CCXPowGate', {}), 'TOFFOLI': ('CCXPowGate', {}), 'CCNOT': ('CCXPowGate', {}),
        'CCY': ('CCYPowGate', {}), 'CSWAP': ('CSwapGate', {}), 'FREDKIN': ('CSwapGate', {}),
    },
    'cirq.ops.identity': {'I': ('IdentityGate', {'num_qubits': 1})},
    'cirq_google.ops.sycamore_gate': {'SYC': ('SycamoreGate', {})},
    'cirq_google.ops.willow_gate': {'WILLOW': ('WillowGate', {})},
}


def make_resolver(repo, mod, fn):
    """Call -> FunctionDef of a module-level repository function (for inter-procedural interpretation), else None."""
    from ..core import FuncInfo

    def resolve(call):
        d = dotted(call.func)
        if not d:
            return None
        r = repo.resolve_in_func(mod, fn, d)
        if isinstance(r, FuncInfo) and r.cls is None and isinstance(r.node, ast.FunctionDef):
            return r.node
        return None
    return resolve


def _components(repo, ci, dim):
    """[(half_turns, matrix)] of ci._eigen_components, by constant folding or (for looped forms) interpretation."""
    fn = ci.methods.get('_eigen_components')
    if fn is None:
        raise AnalysisError(f'{ci.qual}._eigen_components vanished')
    try:
        val = fold.fold_function_return(fn)
        how = 'folded'
    except fold.NotLiteral:
        caches = {}

        def attr_hook(node, it):
            s = ast.unparse(node)
            if s.endswith('._eigencomponents'):
                return caches.setdefault(s, {})
            return NotImplemented
        it = fdx.NumInterp({'self': {'_dimension': dim or 2}}, attr_hook=attr_hook)
        it.resolver = make_resolver(repo, ci.mod, fn)
        try:
            val = it.call(fn)
        except (fdx.Unsupported, fdx.Raised) as ex:
            raise fold.NotLiteral(str(ex))
        how = 'interpreted'
    comps = []
    for item in val:
        ht, m = item
        comps.append((complex(ht), np.array(m, dtype=complex)))
    return comps, how


def run(ctx):
    repo = ctx.repo
    _wrapper_dimensions(ctx, repo)
    from . import c04 as _c04
    _c04.phased_fsim_kernel_rule(ctx, 'C03.h')
    ctx.decided += [
        'C03.a eigen-component tables are complete orthogonal Hermitian projectors of the right dimension with real half-turns',
        'C03.b sum_k exp(i pi theta_k) P_k equals the textbook matrix of the family (big-endian), incl. qutrit X/Z',
        'C03.c named constants are the documented family with the documented literal arguments',
        'C03.d PAULI_EIGEN_MAP (shared with C14.c)',
        'C03.f _unitary_ of GPI/GPI2/MS/ZZ (IonQ), FSim, PhasedFSim, PhasedXZ equals the documented closed form at probe parameters',
        'C03.e Rx/Ry/Rz: exponent = rads/pi, global_shift = -1/2, inverse conversion in _with_exponent; Sycamore = FSim(pi/2, pi/6), Willow = FSim(pi/2, pi/9)',
    ]
    ctx.not_decided += ['parameter-dependent closed forms (FSim, PhasedFSim, PhasedX, PhasedXZ, channels, QFT, diagonal, arithmetic, IonQ native gates)',
                        'EigenGate._unitary_ / _eigen_shifts consumption of the tables', 'Kraus/mixture descriptions of channels']

    ctx.rule('C03.a', 'projector axioms on each extracted eigen-component table: Hermitian, idempotent, mutually orthogonal, summing to identity, '
             'dimension 2^n (3 for the qutrit variant), real half-turn labels', floor=15, style='TBL')
    ctx.rule('C03.b', 'textbook agreement: sum_k exp(i*pi*theta_k) P_k == reference matrix held in the checker', floor=15, style='TBL')
    for (cq, dim), ref in REFERENCE.items():
        ci = repo.cls(cq)
        fn = ci.methods.get('_eigen_components')
        key = cq + (f'[d={dim}]' if dim else '')
        try:
            comps, how = _components(repo, ci, dim)
        except fold.NotLiteral as ex:
            raise AnalysisError(f'eigen-components of {key} can no longer be extracted ({ex}); the table rules cannot be decided')
        n = ref.shape[0]
        ps = [m for _, m in comps]
        ok = all(m.shape == (n, n) for m in ps)
        msg = '' if ok else f'component shapes {[m.shape for m in ps]} (expected {(n, n)})'
        if ok:
            herm = all(np.allclose(m, m.conj().T, atol=1e-12) for m in ps)
            idem = all(np.allclose(m @ m, m, atol=1e-12) for m in ps)
            orth = all(np.allclose(ps[i] @ ps[j], 0, atol=1e-12) for i in range(len(ps)) for j in range(len(ps)) if i != j)
            comp = np.allclose(sum(ps), np.eye(n), atol=1e-12)
            real = all(abs(t.imag) < 1e-12 for t, _ in comps)
            ok = herm and idem and orth and comp and real
            if not ok:
                msg = 'eigen-components are not ' + ', '.join(w for w, f in (('Hermitian', herm), ('idempotent', idem), ('mutually orthogonal', orth),
                                                                              ('complete (sum to I)', comp), ('labelled by real half-turns', real)) if not f)
        ctx.ob('C03.a', key, ok, msg, ci.mod.rel, fn.lineno, detail={'extraction': how})
        if all(m.shape == (n, n) for m in ps):
            u = sum(np.exp(1j * np.pi * t) * m for t, m in comps)
            okb = np.allclose(u, ref, atol=1e-9)
            msgb = ''
            if not okb:
                d = np.argwhere(~np.isclose(u, ref, atol=1e-9))
                i, j = d[0]
                msgb = f'gate matrix at exponent 1 has entry [{i},{j}] = {u[i, j]:.4g} but the documented matrix has {ref[i, j]:.4g}'
            ctx.ob('C03.b', key, okb, msgb, ci.mod.rel, fn.lineno)

    # ------------------------------------------------------------------ C03.c
    ctx.rule('C03.c', 'named constants: each module-level name is bound to a call of the documented class with exactly the documented literal '
             'keyword arguments (chained names such as CNOT = CX share one call; class aliases are followed)', floor=25, style='TBL')
    for modname, table in NAMED.items():
        m = repo.modules.get(modname)
        if m is None:
            raise AnalysisError(f'module {modname} vanished')
        binds = {}
        alias = {}
        for st in m.tree.body:
            if isinstance(st, ast.Assign):
                for t in st.targets:
                    if isinstance(t, ast.Name):
                        binds[t.id] = st.value
                        if isinstance(st.value, ast.Name):
                            alias[t.id] = st.value.id
        for name, (cls, kws) in table.items():
            v = binds.get(name)
            key = f'{modname}.{name}'
            if v is None:
                ctx.ob('C03.c', key, False, f'named constant {name} is no longer defined here', m.rel, 1)
                continue
            ok = isinstance(v, ast.Call)
            msg = '' if ok else f'{name} = {ast.unparse(v)[:50]} is not a constructor call'
            if ok:
                cn = (dotted(v.func) or '').split('.')[-1]
                cn = alias.get(cn, cn)
                got = {}
                lit = True
                for k in v.keywords:
                    try:
                        got[k.arg] = fold.fold(k.value)
                    except fold.NotLiteral:
                        lit = False
                if v.args:
                    lit = False
                if cn != cls:
                    ok = False
                    msg = f'{name} is built from {cn}, the documented family is {cls}'
                elif not lit or got != kws:
                    ok = False
                    msg = f'{name} = {ast.unparse(v)} but the documented definition is {cls}({", ".join(f"{k}={x}" for k, x in kws.items())})'
            ctx.ob('C03.c', key, ok, msg, m.rel, getattr(v, 'lineno', 1))

    parametric_rule(ctx, repo)

    # ------------------------------------------------------------------ C03.e
    ctx.rule('C03.e', 'rotation helpers: R{x,y,z}(rads) pass exponent = rads/pi and global_shift = -0.5 to their family and invert that in '
             '_with_exponent; rx/ry/rz build them; Sycamore = FSim(theta=pi/2, phi=pi/6), Willow = FSim(theta=pi/2, phi=pi/9); _pi is pi', floor=12, style='TBL')
    cg = repo.module('cirq-core/cirq/ops/common_gates.py')
    pif = cg.defs.get('_pi')
    if not isinstance(pif, ast.FunctionDef):
        raise AnalysisError('_pi vanished')
    rets = [r for r in ast.walk(pif) if isinstance(r, ast.Return)]
    ok = len(rets) == 1 and isinstance(rets[0].value, ast.IfExp) and {ast.unparse(rets[0].value.body), ast.unparse(rets[0].value.orelse)} == {'sympy.pi', 'np.pi'}
    ctx.ob('C03.e', 'cirq.ops.common_gates._pi', ok, '' if ok else '_pi no longer returns pi (numeric or symbolic)', cg.rel, pif.lineno)
    for axis, fam in (('x', 'XPowGate'), ('y', 'YPowGate'), ('z', 'ZPowGate')):
        ci = repo.cls(f'cirq.ops.common_gates.R{axis}')
        base_ok = [b.name for b in ci.base_infos] == [fam]
        ctx.ob('C03.e', f'{ci.qual}:family', base_ok, '' if base_ok else f'R{axis} no longer derives from {fam}', cg.rel, ci.node.lineno)
        init = ci.methods.get('__init__')
        sup = [c for c in ast.walk(init) if isinstance(c, ast.Call) and isinstance(c.func, ast.Attribute) and c.func.attr == '__init__']
        ok = bool(sup)
        msg = '' if ok else 'super().__init__ call vanished'
        if ok:
            e = kwarg(sup[0], 'exponent')
            g = kwarg(sup[0], 'global_shift')
            coef = _linear(e, 'rads')
            okc = coef is not None and abs(coef - 1 / math.pi) < 1e-12
            okg = g is not None and _lit(g) == -0.5
            ok = okc and okg
            msg = '' if ok else (f'exponent = {ast.unparse(e)} is not rads/pi' if not okc else f'global_shift = {ast.unparse(g) if g is not None else None} (documented -0.5)')
        ctx.ob('C03.e', f'{ci.qual}.__init__', ok, msg, cg.rel, init.lineno)
        we = ci.methods.get('_with_exponent')
        calls = [c for c in ast.walk(we) if isinstance(c, ast.Call) and call_name(c) == f'R{axis}']
        ok = bool(calls)
        msg = '' if ok else f'_with_exponent no longer builds R{axis}'
        if ok:
            coef = _linear(kwarg(calls[0], 'rads'), 'exponent')
            ok = coef is not None and abs(coef - math.pi) < 1e-12
            msg = '' if ok else f'rads = {ast.unparse(kwarg(calls[0], "rads"))} is not exponent*pi'
        ctx.ob('C03.e', f'{ci.qual}._with_exponent', ok, msg, cg.rel, we.lineno)
        hf = cg.defs.get(f'r{axis}')
        ok = isinstance(hf, ast.FunctionDef) and any(isinstance(r, ast.Return) and isinstance(r.value, ast.Call) and call_name(r.value) == f'R{axis}'
                                                     and ast.unparse(kwarg(r.value, 'rads') or ast.Constant(value=None)) == 'rads' for r in ast.walk(hf))
        ctx.ob('C03.e', f'cirq.ops.common_gates.r{axis}', ok, '' if ok else f'r{axis}(rads) no longer returns R{axis}(rads=rads)', cg.rel, getattr(hf, 'lineno', 1))
    for cq, th, ph in (('cirq_google.ops.sycamore_gate.SycamoreGate', math.pi / 2, math.pi / 6), ('cirq_google.ops.willow_gate.WillowGate', math.pi / 2, math.pi / 9)):
        ci = repo.cls(cq)
        init = ci.methods.get('__init__')
        sup = [c for c in ast.walk(init) if isinstance(c, ast.Call) and isinstance(c.func, ast.Attribute) and c.func.attr == '__init__']
        ok = bool(sup) and [b.name for b in ci.base_infos] == ['FSimGate']
        msg = '' if ok else 'no longer an FSimGate with fixed angles'
        if ok:
            try:
                t, p = fold.fold(kwarg(sup[0], 'theta')), fold.fold(kwarg(sup[0], 'phi'))
                ok = abs(t - th) < 1e-12 and abs(p - ph) < 1e-12
                msg = '' if ok else f'angles theta={t:.6g}, phi={p:.6g} (documented theta={th:.6g}, phi={ph:.6g})'
            except (fold.NotLiteral, TypeError) as ex:
                ok = False
                msg = f'angles not literal: {ex}'
        ctx.ob('C03.e', cq, ok, msg, ci.mod.rel, init.lineno)


def _Xp(t):
    return np.exp(1j * np.pi * t / 2) * np.array([[np.cos(np.pi * t / 2), -1j * np.sin(np.pi * t / 2)], [-1j * np.sin(np.pi * t / 2), np.cos(np.pi * t / 2)]])


def _Zp(t):
    return np.diag([1, np.exp(1j * np.pi * t)])


def _gpi(phi):
    return np.array([[0, np.exp(-2j * np.pi * phi)], [np.exp(2j * np.pi * phi), 0]])


# documented closed forms (written from the class docstrings / vendor documentation, big-endian)
PARAMETRIC = {
    'cirq_ionq.ionq_native_gates.GPIGate': (('phi',), lambda phi: _gpi(phi), [(0,), (0.25,), (0.1,), (-0.37,), (0.5,)]),
    'cirq_ionq.ionq_native_gates.GPI2Gate': (('phi',), lambda phi: np.array([[1, -1j * np.exp(-2j * np.pi * phi)], [-1j * np.exp(2j * np.pi * phi), 1]]) / np.sqrt(2),
                                             [(0,), (0.25,), (0.1,), (-0.37,), (0.5,)]),
    'cirq_ionq.ionq_native_gates.MSGate': (('phi0', 'phi1', 'theta'),
                                           lambda phi0, phi1, theta: np.cos(np.pi * theta) * np.eye(4) - 1j * np.sin(np.pi * theta) * np.kron(_gpi(phi0), _gpi(phi1)),
                                           [(0, 0, 0.25), (0.1, 0.3, 0.25), (0.1, 0.3, 0.1), (0, 0, 0), (0.2, -0.4, 0.4), (0.5, 0.25, 0.05)]),
    'cirq_ionq.ionq_native_gates.ZZGate': (('theta',), lambda theta: np.diag([np.exp(-1j * np.pi * theta), np.exp(1j * np.pi * theta), np.exp(1j * np.pi * theta), np.exp(-1j * np.pi * theta)]),
                                           [(0,), (0.25,), (0.1,), (-0.3,)]),
    'cirq.ops.fsim_gate.FSimGate': (('theta', 'phi'),
                                    lambda theta, phi: np.array([[1, 0, 0, 0], [0, np.cos(theta), -1j * np.sin(theta), 0], [0, -1j * np.sin(theta), np.cos(theta), 0], [0, 0, 0, np.exp(-1j * phi)]]),
                                    [(0, 0), (np.pi / 2, np.pi / 6), (0.3, 1.1), (-0.7, 2.0), (np.pi / 4, 0)]),
    'cirq.ops.fsim_gate.PhasedFSimGate': (('theta', 'zeta', 'chi', 'gamma', 'phi'),
                                          lambda theta, zeta, chi, gamma, phi: np.array([
                                              [1, 0, 0, 0],
                                              [0, np.exp(-1j * gamma - 1j * zeta) * np.cos(theta), -1j * np.exp(-1j * gamma + 1j * chi) * np.sin(theta), 0],
                                              [0, -1j * np.exp(-1j * gamma - 1j * chi) * np.sin(theta), np.exp(-1j * gamma + 1j * zeta) * np.cos(theta), 0],
                                              [0, 0, 0, np.exp(-2j * gamma - 1j * phi)]]),
                                          [(0.3, 0.1, 0.2, 0.4, 0.5), (np.pi / 2, 0, 0, 0, np.pi / 6), (1.0, -0.3, 0.7, -0.2, 2.0)]),
    'cirq.ops.fourier_transform.PhaseGradientGate': (('num_qubits', 'exponent'),
                                                     lambda n, e: np.diag([np.exp(2j * np.pi * k * e / 2 ** n) for k in range(2 ** n)]),
                                                     [(2, 0.5), (3, 3), (3, -1.5), (2, 1), (1, 2.5), (3, 0.25), (2, -3)]),
    'cirq.ops.phased_x_z_gate.PhasedXZGate': (('x_exponent', 'z_exponent', 'axis_phase_exponent'),
                                              lambda x, z, a: _Zp(a + z) @ _Xp(x) @ _Zp(-a),
                                              [(x, z, a) for x in (-1.5, -0.5, 0.5, 1.5, 0.3, -0.7, 1, 0, 2, -1) for z, a in ((0, 0), (0.25, 0.5), (-0.6, 0.2))]),
}


def parametric_rule(ctx, repo):
    ctx.rule('C03.f', 'parametric closed forms: `_unitary_` interpreted for probe parameter values equals the documented closed-form matrix '
             '(big-endian) held in the checker', floor=6, style='FDX')
    for cq, (pnames, ref, probes) in PARAMETRIC.items():
        ci = repo.cls(cq)
        fn = ci.methods.get('_unitary_')
        if fn is None:
            raise AnalysisError(f'{cq}._unitary_ vanished')
        bad = None
        for pv in probes:
            self_obj = {}
            for n_, v in zip(pnames, pv):
                self_obj[n_] = v
                self_obj['_' + n_] = v
            if 'phi' in self_obj:
                self_obj['phase'] = self_obj['phi']
            # the object as its own constructor builds it: what __init__ stores (canonicalised, converted, wrapped) is what _unitary_ sees
            init = ci.methods.get('__init__')
            if init is not None:
                built = {}
                env0 = {'self': built}
                dflt = func_param_defaults(init)
                for a_ in init.args.args[1:] + init.args.kwonlyargs:
                    if a_.arg in pnames:
                        env0[a_.arg] = pv[pnames.index(a_.arg)]
                    elif dflt.get(a_.arg) is not None:
                        try:
                            env0[a_.arg] = ast.literal_eval(dflt[a_.arg])
                        except Exception:
                            env0 = None
                            break
                    else:
                        env0 = None
                        break
                if env0 is not None:
                    def init_hook(call, it2):
                        s2 = ast.unparse(call.func)
                        if s2.endswith('is_parameterized'):
                            return False
                        if s2.endswith('validate_probability'):
                            return it2.ev(call.args[0])
                        return NotImplemented
                    it0 = fdx.NumInterp(env0, call_hook=init_hook)
                    it0.resolver = make_resolver(repo, ci.mod, init)
                    try:
                        it0.call(init)
                        for k_, v_ in built.items():
                            self_obj[k_] = v_
                            if k_.startswith('_'):
                                self_obj[k_[1:]] = v_
                        if '_phi' in built:
                            self_obj['phase'] = built['_phi']
                    except (fdx.Unsupported, fdx.Raised):
                        pass     # constructor outside the interpretable subset: fields as documented (parameter p -> self._p)

            def call_hook(call, it, ci=ci):
                s_ = ast.unparse(call.func)
                if s_.endswith('is_parameterized') or s_.endswith('_is_parameterized_'):
                    return False
                f_ = call.func
                # SomeGate(k=v, ...)._unitary_()  /  cirq.unitary(SomeGate(...)) of a class defined in the same module
                inner = None
                if isinstance(f_, ast.Attribute) and f_.attr == '_unitary_' and isinstance(f_.value, ast.Call):
                    inner = f_.value
                elif s_.split('.')[-1] == 'unitary' and call.args and isinstance(call.args[0], ast.Call):
                    inner = call.args[0]
                if inner is not None:
                    cn = (dotted(inner.func) or '').split('.')[-1]
                    other = repo.classes.get(f'{ci.mod.name}.{cn}')
                    if other is not None and '_unitary_' in other.methods and not inner.args:
                        so = {}
                        for k in inner.keywords:
                            v_ = it.ev(k.value)
                            so[k.arg] = v_
                            so['_' + k.arg] = v_
                        if 'phi' in so:
                            so['phase'] = so['phi']
                        sub = fdx.NumInterp({'self': so}, call_hook=lambda c2, i2: call_hook(c2, i2, other))
                        return np.array(sub.call(other.methods['_unitary_']), dtype=complex)
                    # ... or of a table-defined eigen-gate family of the library: its matrix comes from the extracted eigen-components
                    lib = repo.resolve_in_func(ci.mod, fn, dotted(inner.func) or '')
                    if isinstance(lib, ClassInfo) and '_eigen_components' in {m_ for c_ in repo.mro(lib) for m_ in c_.methods}:
                        kws = {k.arg: it.ev(k.value) for k in inner.keywords}
                        pos = [it.ev(a_) for a_ in inner.args]
                        owner = next(c_ for c_ in repo.mro(lib) if '_eigen_components' in c_.methods)
                        comps_, _ = _components(repo, owner, 2)
                        if lib.name in ('Rx', 'Ry', 'Rz'):
                            e_, sh_ = kws.get('rads', pos[0] if pos else 0) / np.pi, -0.5
                        else:
                            e_, sh_ = kws.get('exponent', pos[0] if pos else 1.0), kws.get('global_shift', 0.0)
                        return sum(np.exp(1j * np.pi * e_ * (t_ + sh_)) * m_ for t_, m_ in comps_)
                return NotImplemented
            it = fdx.NumInterp({'self': self_obj}, call_hook=call_hook)
            it.resolver = make_resolver(repo, ci.mod, fn)   # module-level helpers of the repository are followed
            try:
                got = np.array(it.call(fn), dtype=complex)
            except (fdx.Unsupported, fdx.Raised) as ex:
                raise AnalysisError(f'cannot interpret {cq}._unitary_: {ex}')
            want = np.array(ref(*pv), dtype=complex)
            if got.shape != want.shape or not np.allclose(got, want, atol=1e-9):
                d = np.argwhere(~np.isclose(got, want, atol=1e-9)) if got.shape == want.shape else [[0, 0]]
                i, j = d[0]
                bad = bad or f'at {dict(zip(pnames, [round(float(v), 4) for v in pv]))}: entry [{i},{j}] is {got[i, j] if got.shape == want.shape else "?"} but the documented matrix has {want[i, j]:.4g}'
        ctx.ob('C03.f', f'{cq}._unitary_', bad is None, bad or '', ci.mod.rel, fn.lineno)


def _lit(node):
    try:
        return fold.fold(node)
    except fold.NotLiteral:
        return None


def _linear(expr, sym):
    """Coefficient k if expr == k*sym for the designated symbol (with _pi(...) folded to pi), else None."""
    if expr is None:
        return None

    class T(ast.NodeTransformer):
        def visit_Call(self, n):
            if isinstance(n.func, ast.Name) and n.func.id == '_pi':
                return ast.Constant(value=math.pi)
            return self.generic_visit(n)
    e = T().visit(ast.parse(ast.unparse(expr), mode='eval').body)
    try:
        v1 = fold.fold(e, {sym: 1.0})
        v2 = fold.fold(e, {sym: 2.0})
        v0 = fold.fold(e, {sym: 0.0})
    except (fold.NotLiteral, ZeroDivisionError):
        return None
    if abs(v0) > 1e-12 or abs(v2 - 2 * v1) > 1e-12:
        return None
    return v1


def _wrapper_dimensions(ctx, repo):
    """C03.g - gates / operations that wrap an arbitrary sub-gate size their matrices by the sub-gate's qid shape, not by 2**n."""
    ctx.decided.append('C03.g wrappers of an arbitrary sub-gate or sub-operation (controlled, random, parallel, tagged, classically controlled ...) never compute a matrix dimension as '
                       '2**num_qubits / 1 << n: the wrapped gate may act on qudits, its dimension is the product of its qid shape')
    ctx.rule('C03.g', 'qid-shape dimensions in wrappers: in every class of cirq.ops that reads self.sub_gate / self._sub_gate / self.sub_operation / self._sub_operation, no expression '
             '2 ** <...> or 1 << <...> involves num_qubits(...) or len(...) of qubits', floor=5, style='TBL')
    n = 0
    for ci in sorted(repo.classes.values(), key=lambda c: c.qual):
        if not ci.qual.startswith('cirq.ops.') or ci.mod.rel.endswith('_test.py'):
            continue
        if not any(isinstance(x, ast.Attribute) and x.attr in ('sub_gate', '_sub_gate', 'sub_operation', '_sub_operation') and isinstance(x.value, ast.Name) and x.value.id == 'self'
                   for x in ast.walk(ci.node)):
            continue
        n += 1
        bad = []
        for b in ast.walk(ci.node):
            if isinstance(b, ast.BinOp) and ((isinstance(b.op, ast.Pow) and isinstance(b.left, ast.Constant) and b.left.value == 2)
                                             or (isinstance(b.op, ast.LShift) and isinstance(b.left, ast.Constant) and b.left.value == 1)):
                src = ast.unparse(b.right)
                if 'num_qubits' in src or 'qubits' in src or 'num_controls' in src:
                    bad.append(b)
        ctx.ob('C03.g', f'{ci.qual}:qid-shape-dimensions', not bad, '' if not bad else
               f'`{ast.unparse(bad[0])}` sizes a matrix of {ci.name} as a power of two: for a sub-gate on qutrits the identity / embedding has the wrong shape '
               '(use the product of protocols.qid_shape)', ci.mod.rel, (bad[0].lineno if bad else ci.node.lineno))
    if n == 0:
        raise AnalysisError('C03.g: no wrapper class found')
