"""General rules applied to the code in scope of every property (round 4/5 of the seeded mutations).

Each rule is a necessary condition that does not depend on what a particular module computes:

  z_fwd   sibling calls of one callee in mutually exclusive branches of one function forward the same
          parameters of the enclosing function (an option handed on in one arm and forgotten in another)
  z_drop  a parameter that a callee accepts under the same name is not silently dropped by a wrapper
          (the wrapper never reads it and calls the callee without it)
  z_pair  positional pairing needs a stable order: no zip()/enumerate() over a set, and the index of an
          enumerate(sorted(..)/reversed(..)/set(..)) loop does not subscript data that is not in that order
  z_get   a looked-up value is not tested by truthiness to find out whether the key was present
          (`d.get(k) or e` loses 0 / 0.0 / False / '' stored under k)

Scopes are directory prefixes derived from the anchors of each property. Exemptions are explicit, one
construct each, with the reason.
"""
from __future__ import annotations

import ast
from typing import Dict, List, Optional, Set, Tuple

from ..core import AnalysisError, call_name, dotted
from ..flow import dominating_atoms

CORE = 'cirq-core/cirq/'
GOOGLE = 'cirq-google/cirq_google/'
SCOPES: Dict[str, Tuple[str, ...]] = {
    'C01': (CORE + 'sim/', CORE + 'protocols/', CORE + 'circuits/', CORE + 'linalg/', CORE + 'qis/', CORE + 'transformers/measurement_transformers.py'),
    'C02': (CORE + 'sim/', CORE + 'value/', CORE + 'qis/', CORE + 'ops/measure', CORE + 'ops/pauli_measurement', CORE + 'ops/classically', CORE + 'ops/if_op'),
    'C03': (CORE + 'ops/', GOOGLE + 'ops/', 'cirq-ionq/cirq_ionq/ionq_native_gates.py'),
    'C04': (CORE + 'ops/', CORE + 'protocols/', CORE + 'sim/'),
    'C05': (CORE + 'circuits/', CORE + 'ops/op_tree.py'),
    'C06': (CORE + 'transformers/', GOOGLE + 'transformers/'),
    'C07': (CORE + 'transformers/', CORE + 'devices/', GOOGLE + 'devices/', GOOGLE + 'transformers/', GOOGLE + 'ops/', 'cirq-aqt/', 'cirq-ionq/', 'cirq-pasqal/'),
    'C08': (CORE + 'ops/', CORE + 'protocols/', CORE + 'linalg/', CORE + 'value/'),
    'C09': (CORE + 'devices/', CORE + 'sim/', CORE + 'ops/', CORE + 'protocols/', CORE + 'qis/'),
    'C10': (CORE + 'study/', CORE + 'circuits/', CORE + 'protocols/resolve_parameters.py', CORE + 'sim/simulator', CORE + 'value/', GOOGLE + 'study/', CORE + 'ops/'),
    'C11': (CORE + 'protocols/json', CORE + 'value/', CORE + 'devices/', CORE + 'study/', GOOGLE + 'devices/', GOOGLE + 'study/'),
    'C12': (CORE + 'circuits/', CORE + 'value/', CORE + 'protocols/', CORE + 'ops/classically', CORE + 'ops/if_op'),
    'C13': (CORE + 'sim/clifford/', CORE + 'qis/', CORE + 'ops/clifford_gate.py', CORE + 'ops/dense_pauli_string.py'),
    'C14': (CORE + 'ops/pauli', CORE + 'ops/linear_combinations.py', CORE + 'ops/dense_pauli_string.py', CORE + 'ops/projector.py', CORE + 'work/observable', CORE + 'work/sampler.py', CORE + 'work/pauli_sum_collector.py', CORE + 'sim/simulator.py',
            CORE + 'sim/sparse_simulator.py', CORE + 'sim/density_matrix_simulator.py', CORE + 'value/linear_dict.py'),
    'C16': (GOOGLE + 'api/', GOOGLE + 'serialization/', GOOGLE + 'devices/', GOOGLE + 'study/', GOOGLE + 'ops/', GOOGLE + 'engine/engine_result.py'),
    'C17': ('cirq-ionq/', 'cirq-aqt/', 'cirq-pasqal/'),
    'C18': (CORE + 'sim/', CORE + 'study/', CORE + 'value/', CORE + 'work/', CORE + 'vis/', GOOGLE + 'engine/', GOOGLE + 'api/v2/results.py', GOOGLE + 'api/v1/programs.py'),
    'C19': (CORE + 'circuits/qasm_output.py', CORE + 'protocols/qasm.py', CORE + 'ops/', CORE + 'value/condition.py'),
    'C20': (CORE + 'work/', GOOGLE + 'engine/'),
}

# (module, function, callee text, keyword) -> reason the sibling call legitimately omits the keyword
FWD_EXEMPT = {
    ('cirq.circuits.text_diagram_drawer', 'render', 'block_diagram.mutable_block(x, y).draw_curve', 'crossing_char'):
        'the crossing character is only meaningful for the vertical-over-horizontal pass; the horizontal pass draws first',
    ('cirq.protocols.decompose_protocol', '_try_op_decomposer', 'decomposer', 'context'):
        'feature detection: the decomposer is called with context only if its signature accepts one',
    ('cirq.qis.states', 'quantum_state', 'QuantumState', 'qid_shape'): 'copy arm rebuilds from an existing QuantumState and passes its shape positionally',
}
# (module, class.function, parameter) -> reason the parameter is legitimately unused although a callee takes one of the same name
DROP_EXEMPT = {
    ('cirq_google.serialization.arg_func_langs', '_arg_func_from_proto', 'required_arg_name'):
        'the name only words an error message; the function passes its own wording for the nested arguments',
    ('cirq.ops.pauli_string', 'PauliString._commutes_', 'atol'): 'commutation of Pauli products is decided exactly (parity of anticommuting positions); single Paulis need no tolerance',
    ('cirq.qis.clifford_tableau', 'CliffordTableau.apply_h', 'global_shift'): 'a tableau is blind to global phase; H is composed from Y and X whose own shifts are irrelevant too',
    ('cirq.interop.quirk.cells.input_rotation_cells', 'QuirkInputRotationOperation._circuit_diagram_info_', 'args'): 'diagram text only; asks the sub-gate for its default symbols on purpose',
}


# ---------------------------------------------------------------------------------------------------------------------
# Attribution.  A general rule looks at every function of the repository, but an instance is an obligation of property P
# only if the function belongs to P: (1) a name hint says which behaviour the function implements (and the file lies in
# the broad scope of that property); otherwise (2) the properties that list the file (or its directory) among their
# anchors; otherwise (3) the single default owner of the directory.  Files under contrib/, testing/, interop/,
# experiments/ and generated protobuf modules belong to no property.
import json as _json
import os as _os
import re as _re

_PROPS = _os.path.join(_os.path.dirname(_os.path.dirname(_os.path.dirname(_os.path.abspath(__file__)))), 'properties.jsonl')
_ANCHORS: Optional[List[Tuple[str, str]]] = None

HINTS = [   # first match wins
    (r'expectation|observable|pauli_sum|pauli_string|_pauli_expansion_', 'C14'),
    (r'json', 'C11'),
    (r'qasm', 'C19'),
    (r'proto|serializ|deserializ', 'C16'),
    (r'_resolve_parameters_|_is_parameterized_|_parameter_names_|resolve_param|sweep|flatten|symbol', 'C10'),
    (r'key_path|measurement_key|rescoped|control_keys|repetition|_mapped_|classical_control', 'C12'),
    (r'nois|channel|kraus|mixture|depolar|damp', 'C09'),
    (r'histogram|records|measurements|_result|result_|dataframe', 'C18'),
    (r'measure|sample|_run$|^run$', 'C02'),
    (r'_commutes_|trace_distance|__pow__|_phase_by_|approx_eq|_value_equality|__eq__|__hash__|^controlled$|inverse|equal_up_to', 'C08'),
    (r'_decompose_|_unitary_|_apply_unitary_|_has_unitary_|_act_on_|apply_unitar', 'C04'),
    (r'tableau|stabilizer|clifford|ch_form', 'C13'),
    (r'insert|append|batch_|_mutated|placement|earliest|moment', 'C05'),
    (r'validate|route|routing|gateset|decompose_to_target|compile', 'C07'),
]
DIR_DEFAULT = [   # first matching prefix wins; None = belongs to no property
    (GOOGLE + 'engine/', 'C20'), (GOOGLE + 'api/', 'C16'), (GOOGLE + 'serialization/', 'C16'), (GOOGLE + 'devices/', 'C07'),
    (GOOGLE + 'transformers/', 'C07'), (GOOGLE + 'ops/', 'C03'), (GOOGLE + 'study/', 'C10'), (GOOGLE, None),
    ('cirq-ionq/', 'C17'), ('cirq-aqt/', 'C17'), ('cirq-pasqal/', 'C17'),
    (CORE + 'sim/clifford/', 'C13'), (CORE + 'sim/', 'C01'), (CORE + 'protocols/', 'C04'), (CORE + 'circuits/', 'C05'),
    (CORE + 'transformers/routing/', 'C07'), (CORE + 'transformers/target_gatesets/', 'C07'), (CORE + 'transformers/analytical_decompositions/', None),
    (CORE + 'transformers/heuristic_decompositions/', None), (CORE + 'transformers/', 'C06'), (CORE + 'ops/', 'C08'), (CORE + 'study/', 'C10'),
    (CORE + 'devices/', 'C09'), (CORE + 'work/', 'C18'), (CORE + 'vis/', 'C18'), (CORE + 'qis/', 'C01'), (CORE + 'linalg/', 'C08'), (CORE + 'value/', None),
    (CORE, None),
]
FILE_EXTRA = {   # files whose behaviour a second property states explicitly
    GOOGLE + 'api/v2/results.py': ('C18',),
    GOOGLE + 'engine/engine_result.py': ('C18', 'C16'),
    CORE + 'transformers/measurement_transformers.py': ('C01',),   # sim/mux drops terminal measurements through it for final_state_vector
}


def _anchors():
    global _ANCHORS
    if _ANCHORS is None:
        out = []
        with open(_PROPS) as f:
            for line in f:
                if line.strip():
                    p = _json.loads(line)
                    for a in p['anchors'].get('files', []):
                        out.append((a, p['id']))
        _ANCHORS = out
    return _ANCHORS


def owners(rel: str, fname: str) -> Set[str]:
    if rel.endswith('_test.py') or '/testing/' in rel or '_pb2' in rel or '/contrib/' in rel or '/interop/' in rel or '/experiments/' in rel:
        return set()
    own = {pid for a, pid in _anchors() if (rel == a if a.endswith('.py') else rel.startswith(a.rstrip('/') + '/'))}
    own.discard('C15')
    for rx, pid in HINTS:
        if _re.search(rx, fname):
            if rel.startswith(SCOPES.get(pid, ())):
                # a small single-purpose file (anchored by at most two properties) is co-owned by them; in a multi-purpose file
                # (simulator.py, circuit.py, ...) only the behaviour the function name points at counts
                co = own if len(own) <= 2 else set()
                return {pid} | co | set(FILE_EXTRA.get(rel, ()))
            break
    if not own:
        for pre, pid in DIR_DEFAULT:
            if rel.startswith(pre):
                if pid:
                    own = {pid}
                break
    return own | set(FILE_EXTRA.get(rel, ()))


def _functions(repo, pid):
    pre = SCOPES[pid]
    for m, ci, fn in repo.all_functions():
        if isinstance(fn, (ast.FunctionDef, ast.AsyncFunctionDef)) and m.rel.startswith(pre) and pid in owners(m.rel, fn.name):
            yield m, ci, fn


def _params(fn) -> List[str]:
    return [a.arg for a in fn.args.posonlyargs + fn.args.args + fn.args.kwonlyargs if a.arg not in ('self', 'cls')]


def _ancestors(parents, n, stop):
    out = []
    while n in parents and n is not stop:
        p = parents[n]
        out.append((p, n))
        n = p
    return out


def _exclusive(parents, a, b, fn) -> bool:
    """True when the two nodes cannot both be evaluated in one activation: different arms of one if / conditional
    expression / match, or two different return statements."""
    aa = _ancestors(parents, a, fn)
    bb = _ancestors(parents, b, fn)
    bpar = {id(p): c for p, c in bb}
    for p, ca in aa:
        if id(p) in bpar:
            cb = bpar[id(p)]
            if ca is cb:
                return False
            if isinstance(p, ast.If):
                ina, inb = ca in p.body, cb in p.body
                ioa, iob = ca in p.orelse, cb in p.orelse
                if (ina and iob) or (ioa and inb):
                    return True
            if isinstance(p, ast.IfExp):
                if {id(ca), id(cb)} == {id(p.body), id(p.orelse)}:
                    return True
            if isinstance(p, ast.Match):
                if isinstance(ca, ast.match_case) and isinstance(cb, ast.match_case):
                    return True
            break
    ra = next((p for p, _ in aa if isinstance(p, ast.Return)), None)
    rb = next((p for p, _ in bb if isinstance(p, ast.Return)), None)
    return ra is not None and rb is not None and ra is not rb


def _callee_param_order(repo, m, ci, fn, c) -> Optional[List[str]]:
    d = dotted(c.func)
    if not d:
        return None
    tgt = None
    bound = False
    if d.startswith('self.') and ci is not None and d.count('.') == 1:
        r = repo.find_method(ci, d.split('.')[1])
        tgt = r[1] if r else None
        bound = True
    else:
        try:
            r = repo.resolve_in_func(m, fn, d)
        except Exception:
            r = None
        tgt = getattr(r, 'node', None)
        if isinstance(tgt, ast.ClassDef):
            init = r.methods.get('__init__') if hasattr(r, 'methods') else None
            tgt = init
            bound = True
    if not isinstance(tgt, (ast.FunctionDef, ast.AsyncFunctionDef)):
        return None
    names = [a.arg for a in tgt.args.posonlyargs + tgt.args.args]
    if bound and names and names[0] in ('self', 'cls'):
        names = names[1:]
    return names


def _receiver_type_split(parents, c1, c2, fn) -> bool:
    if not (isinstance(c1.func, ast.Attribute) and isinstance(c1.func.value, ast.Name)):
        return False
    recv = c1.func.value.id
    for c in (c1, c2):
        for a, _ in dominating_atoms(parents, c, fn):
            if isinstance(a, ast.Call) and call_name(a) == 'isinstance' and a.args and isinstance(a.args[0], ast.Name) and a.args[0].id == recv:
                return True
    return False


def _stub(fn) -> bool:
    body = [s for s in fn.body if not (isinstance(s, ast.Expr) and isinstance(s.value, ast.Constant))]
    if not body:
        return True
    if len(body) == 1 and isinstance(body[0], (ast.Pass, ast.Raise)):
        return True
    if len(body) == 1 and isinstance(body[0], ast.Return) and (
            body[0].value is None or isinstance(body[0].value, ast.Constant) or ast.unparse(body[0].value) == 'NotImplemented'):
        return True
    return False


# ---------------------------------------------------------------------------------------------------------------------
def sibling_forwarding_rule(ctx, rid: str, pid: str, floor: int = 1):
    repo = ctx.repo
    ctx.rule(rid, 'sibling calls agree on what they forward: when one function calls the same callee in mutually exclusive branches (arms of an if / conditional expression / match, or '
             'different return statements) and one call hands a parameter of the function on as keyword k, every sibling call passes k as well, or mentions the parameter otherwise, or sits '
             'under a test of that parameter - an option honoured in one arm and silently defaulted in the other', floor=floor, style='COH')
    n = 0
    for m, ci, fn in _functions(repo, pid):
        params = set(_params(fn))
        if not params:
            continue
        groups: Dict[str, List[ast.Call]] = {}
        for c in ast.walk(fn):
            if isinstance(c, ast.Call):
                groups.setdefault(ast.unparse(c.func), []).append(c)
        parents = None
        for callee, calls in groups.items():
            if len(calls) < 2:
                continue
            fw = []
            order = _callee_param_order(repo, m, ci, fn, calls[0])
            for c in calls:
                kws = {k.arg: k.value for k in c.keywords if k.arg}
                if order is not None:
                    for i, a in enumerate(c.args):
                        if i < len(order) and not isinstance(a, ast.Starred):
                            kws.setdefault(order[i], a)
                elif c.args:
                    kws['*positional*'] = c.args[0]
                star = any(k.arg is None for k in c.keywords) or any(isinstance(a, ast.Starred) for a in c.args)
                f = {k: v.id for k, v in kws.items() if isinstance(v, ast.Name) and v.id in params}
                used = {x.id for a in list(c.args) + [k.value for k in c.keywords] for x in ast.walk(a) if isinstance(x, ast.Name)}
                fw.append((c, kws, f, used, star))
            if not any(f for _, _, f, _, _ in fw):
                continue
            if parents is None:
                parents = m.parents()
            seen = set()
            for c1, _, f1, _, _ in fw:
                for k, p in f1.items():
                    for c2, kws2, _, used2, star2 in fw:
                        if c2 is c1 or star2 or k in kws2 or p in used2:
                            continue
                        if '*positional*' in kws2 and len(c2.args) > len(c1.args):
                            continue   # unresolved callee: the extra positional argument may be k
                        if not _exclusive(parents, c1, c2, fn):
                            continue
                        if _receiver_type_split(parents, c1, c2, fn):
                            continue   # the arms dispatch on the type of the receiver: same method name, different callee
                        key = f'{m.name}.{fn.name}:{callee}:{k}'
                        if (key, c2.lineno) in seen:
                            continue
                        seen.add((key, c2.lineno))
                        tested = any(p in {x.id for x in ast.walk(a) if isinstance(x, ast.Name)} for a, _ in dominating_atoms(parents, c2, fn))
                        ex = FWD_EXEMPT.get((m.name, fn.name, callee, k))
                        n += 1
                        ok = tested or ex is not None
                        ctx.ob(rid, key, ok, ('tabled: ' + ex) if ex else '' if ok else
                               f'`{callee}(...)` at line {c1.lineno} forwards `{k}={p}`, its sibling in the other branch (line {c2.lineno}) does not: on that path the caller\'s `{p}` is '
                               'silently replaced by the default', m.rel, c2.lineno)
            # agreement obligations for the evidence: sibling groups that forward consistently
            for c1, _, f1, _, _ in fw:
                for k, p in f1.items():
                    key = f'{m.name}.{fn.name}:{callee}:{k}'
                    if not any(kk == key for kk, _ in seen):
                        others = [c2 for c2, kws2, _, used2, _ in fw if c2 is not c1 and (k in kws2 or p in used2) and _exclusive(parents, c1, c2, fn)]
                        if others and (key, 0) not in seen:
                            seen.add((key, 0))
                            n += 1
                            ctx.ob(rid, key, True, '', m.rel, c1.lineno)
    return n


# ---------------------------------------------------------------------------------------------------------------------
def dropped_parameter_rule(ctx, rid: str, pid: str, floor: int = 1):
    repo = ctx.repo
    ctx.rule(rid, 'a wrapper does not swallow an option: when a function accepts parameter p and calls a resolvable function / method of its own class that also accepts a parameter '
             'named p, the function reads p somewhere (normally: hands it on) - a parameter that is never read while the callee falls back to its default means the caller\'s choice '
             '(qubit order, tolerance, seed, context) is ignored', floor=floor, style='COH')
    n = 0
    for m, ci, fn in _functions(repo, pid):
        params = [p for p in _params(fn) if not p.startswith('_')]
        if not params or _stub(fn):
            continue
        loads = {x.id for x in ast.walk(fn) if isinstance(x, ast.Name) and isinstance(x.ctx, (ast.Load, ast.Del))}
        done = set()
        for c in ast.walk(fn):
            if not isinstance(c, ast.Call):
                continue
            d = dotted(c.func)
            if not d:
                continue
            tgt = None
            if d.startswith('self.') and ci is not None and d.count('.') == 1:
                r = repo.find_method(ci, d.split('.')[1])
                tgt = r[1] if r else None
            elif d.startswith('super().') and ci is not None and d.count('.') == 1:
                for b in repo.mro(ci)[1:]:
                    if d.split('.')[1] in b.methods:
                        tgt = b.methods[d.split('.')[1]]
                        break
            else:
                try:
                    r = repo.resolve_in_func(m, fn, d)
                except Exception:
                    r = None
                tgt = getattr(r, 'node', None)
            if not isinstance(tgt, (ast.FunctionDef, ast.AsyncFunctionDef)) or tgt is fn:
                continue
            tp = {a.arg for a in tgt.args.posonlyargs + tgt.args.args + tgt.args.kwonlyargs}
            for p in params:
                if p in tp and (fn.name, p) not in done:
                    done.add((fn.name, p))
                    qual = (ci.name + '.' if ci else '') + fn.name
                    ex = DROP_EXEMPT.get((m.name, qual, p))
                    n += 1
                    ok = p in loads or ex is not None
                    ctx.ob(rid, f'{m.name}.{qual}:{p}', ok, ('tabled: ' + ex) if ex else '' if ok else
                           f'parameter `{p}` is never read, and `{d}(...)` (line {c.lineno}), which accepts `{p}`, is called without it: the caller\'s `{p}` has no effect', m.rel, c.lineno)
    if n == 0:
        raise AnalysisError(f'{rid}: no wrapper/callee pair with a same-named parameter in scope')
    return n


# ---------------------------------------------------------------------------------------------------------------------
_SETMK = {'set', 'frozenset'}
_SET_ANN = ('set[', 'Set[', 'frozenset[', 'FrozenSet[', 'AbstractSet[')
_SET_METHODS = {'all_qubits', 'all_measurement_key_objs', 'all_measurement_key_names'}
_REORDER = {'sorted', 'reversed', 'set', 'frozenset'}


def _set_locals(fn) -> Set[str]:
    cand: Dict[str, List[bool]] = {}
    for a in fn.args.posonlyargs + fn.args.args + fn.args.kwonlyargs:
        if a.annotation is not None and ast.unparse(a.annotation).replace('typing.', '').replace('collections.abc.', '').startswith(_SET_ANN):
            cand.setdefault(a.arg, []).append(True)
    for s in ast.walk(fn):
        tgt = None
        if isinstance(s, ast.Assign) and len(s.targets) == 1 and isinstance(s.targets[0], ast.Name):
            tgt, v = s.targets[0].id, s.value
        elif isinstance(s, ast.AnnAssign) and isinstance(s.target, ast.Name) and s.value is not None:
            tgt, v = s.target.id, s.value
        if tgt is None:
            continue
        cand.setdefault(tgt, []).append(_is_set_expr(v, set()))
    return {k for k, v in cand.items() if v and all(v)}


def _is_set_expr(e, setloc) -> bool:
    if isinstance(e, (ast.Set, ast.SetComp)):
        return True
    if isinstance(e, ast.Call) and call_name(e) in _SETMK:
        return True
    if isinstance(e, ast.Name) and e.id in setloc:
        return True
    if isinstance(e, ast.Call) and isinstance(e.func, ast.Attribute) and e.func.attr in _SET_METHODS:
        return True
    if isinstance(e, ast.BinOp) and isinstance(e.op, (ast.BitOr, ast.BitAnd, ast.Sub, ast.BitXor)):
        return _is_set_expr(e.left, setloc) or _is_set_expr(e.right, setloc)
    return False


def _keys_values_sources(fn, zcall):
    """(keys receiver, values receiver) if one argument of the zip derives from `<A>.keys` / `<A>.keys()` and another from `.values()` of a different receiver."""
    from ..flow import name_deps

    def src(x):
        if isinstance(x, ast.Call) and isinstance(x.func, ast.Attribute) and x.func.attr == 'values' and not x.args:
            return {'V:' + ast.unparse(x.func.value)}
        if isinstance(x, ast.Call) and isinstance(x.func, ast.Attribute) and x.func.attr == 'keys' and not x.args:
            return {'K:' + ast.unparse(x.func.value)}
        if isinstance(x, ast.Attribute) and x.attr == 'keys' and isinstance(x.ctx, ast.Load):
            return {'K:' + ast.unparse(x.value)}
        return None
    dep = name_deps(fn, {}, source_of=src)

    def labels(e):
        out = set()
        for x in ast.walk(e):
            out |= src(x) or set()
            if isinstance(x, ast.Name):
                out |= dep.get(x.id, set())
        return out
    ks, vs = set(), set()
    for a in zcall.args:
        ls = labels(a.value if isinstance(a, ast.Starred) else a)
        if isinstance(a, ast.Call) and isinstance(a.func, ast.Attribute) and a.func.attr == 'items' and not a.args:
            ls = ls | {'K:' + ast.unparse(a.func.value)}    # the items of a mapping, zipped as they are, carry its keys
        ks |= {l[2:] for l in ls if l.startswith('K:')}
        vs |= {l[2:] for l in ls if l.startswith('V:')}
    for k in sorted(ks):
        for v in sorted(vs):
            if v != k and not v.startswith(k + '.') and not k.startswith(v + '.'):
                return k, v
    return None


def unordered_pairing_rule(ctx, rid: str, pid: str, floor: int = 5):
    repo = ctx.repo
    ctx.rule(rid, 'positional pairing needs one stable order: no argument of zip() and no subject of enumerate() is a set (set/frozenset value, set-typed local or parameter, all_qubits()), '
             'and inside `for i, x in enumerate(sorted(E) / reversed(E) / set(E))` the index i does not subscript data that was not itself put in that order - columns, rates or labels '
             'stored in the original order of E would be attached to the wrong element', floor=floor, style='TNT')
    n = 0
    for m, ci, fn in _functions(repo, pid):
        setloc = None
        for c in ast.walk(fn):
            if isinstance(c, ast.Call) and call_name(c) == 'zip' and len(c.args) >= 2:
                if setloc is None:
                    setloc = _set_locals(fn)
                bad = [a for a in c.args if _is_set_expr(a, setloc)]
                n += 1
                ok = not bad
                msg = '' if ok else (f'`{ast.unparse(c)[:90]}` pairs by position with `{ast.unparse(bad[0])[:40]}`, which is a set: its iteration order is unrelated to the order of the '
                                     'other argument')
                if ok:
                    # keys of one mapping paired with the values of *other* mappings: the i-th key and the i-th value belong together only if all of them list their keys alike
                    kv = _keys_values_sources(fn, c)
                    if kv is not None:
                        ok = False
                        msg = (f'`{ast.unparse(c)[:90]}` pairs the keys of `{kv[0]}` with values taken by position from `{kv[1]}`: a mapping that lists the same keys in another order '
                               'gets its values filed under the wrong keys')
                ctx.ob(rid, f'{m.name}.{fn.name}:zip@{_pos_key(fn, c, "zip")}', ok, msg, m.rel, c.lineno)
        for lp in ast.walk(fn):
            it = None
            if isinstance(lp, (ast.For, ast.comprehension)):
                it = lp.iter
            if not (isinstance(it, ast.Call) and call_name(it) == 'enumerate' and it.args):
                continue
            if setloc is None:
                setloc = _set_locals(fn)
            subj = it.args[0]
            n += 1
            if _is_set_expr(subj, setloc):
                ctx.ob(rid, f'{m.name}.{fn.name}:enumerate@{_pos_key(fn, it, "enumerate")}', False,
                       f'`{ast.unparse(it)[:80]}` numbers the elements of a set: the numbering is arbitrary', m.rel, it.lineno)
                continue
            ok = True
            msg = ''
            if isinstance(subj, ast.Call) and call_name(subj) in _REORDER and subj.args and isinstance(lp.target, ast.Tuple) and len(lp.target.elts) == 2 \
                    and isinstance(lp.target.elts[0], ast.Name):
                idx = lp.target.elts[0].id
                elem_names = {x.id for x in ast.walk(lp.target.elts[1]) if isinstance(x, ast.Name)}
                body = lp.body if isinstance(lp, ast.For) else []
                if isinstance(lp, ast.comprehension):
                    par = m.parents()
                    comp = par.get(lp)
                    body = [x for x in ([getattr(comp, 'elt', None), getattr(comp, 'key', None), getattr(comp, 'value', None)] + list(lp.ifs)) if x is not None]
                assigned_in_loop = {t.id for s in body for x in ast.walk(s) if isinstance(x, (ast.Assign, ast.AugAssign))
                                    for t in (x.targets if isinstance(x, ast.Assign) else [x.target]) if isinstance(t, ast.Name)}
                ordered_src = ast.unparse(subj)
                for s in body:
                    for sub in ast.walk(s):
                        if isinstance(sub, ast.Subscript) and isinstance(sub.ctx, ast.Load) and idx in {x.id for x in ast.walk(sub.slice) if isinstance(x, ast.Name)}:
                            base_names = {x.id for x in ast.walk(sub.value) if isinstance(x, ast.Name)}
                            if base_names & (elem_names | assigned_in_loop):
                                continue
                            if ordered_src in ast.unparse(sub.value):
                                continue
                            ok = False
                            msg = (f'`{ast.unparse(sub)[:60]}` is indexed by the position `{idx}` of `{ast.unparse(subj)[:50]}`, but `{ast.unparse(sub.value)[:40]}` was not put in '
                                   'that order: the element and the data picked for it do not belong together')
                            break
                    if not ok:
                        break
            ctx.ob(rid, f'{m.name}.{fn.name}:enumerate@{_pos_key(fn, it, "enumerate")}', ok, msg, m.rel, it.lineno)
    return n


def _pos_key(fn, node, name) -> str:
    """ordinal of this call among the calls of the same name in the function (position independent key)"""
    k = 0
    for c in ast.walk(fn):
        if isinstance(c, ast.Call) and call_name(c) == name:
            k += 1
            if c is node:
                return f'#{k}'
    return '#?'


# ---------------------------------------------------------------------------------------------------------------------
# (module, function) -> reason; for value selections whose fallback is not a zero of the stored type
GET_EXEMPT = {
    ('cirq.vis.heatmap', '_plot_on_axis'): 'boolean use: whether any annotation is configured',
}
_ZERO_SRC = {'0', '0.0', '0j', "''", '""', '()', '[]', '{}', 'False', 'None', 'set()', 'frozenset()', 'dict()', 'list()', 'tuple()'}


def lookup_truthiness_rule(ctx, rid: str, pid: str, floor: int = 1):
    repo = ctx.repo
    ctx.rule(rid, 'presence is not truthiness: the result of a one-argument `mapping.get(key)` is not used as `get(key) or other` (value selection), unless other is the zero of the stored type - a stored 0, 0.0, False or empty '
             'value would be taken for a missing key; lookups with an explicit sentinel / `is None` test / `in` test are what the rule counts as discharged', floor=floor, style='WR')
    n = 0
    for m, ci, fn in _functions(repo, pid):
        k = 0
        for b in ast.walk(fn):
            # discharged idioms counted as instances: x = d.get(k); if x is None / `k in d`
            if isinstance(b, ast.Compare) and len(b.ops) == 1 and isinstance(b.ops[0], (ast.Is, ast.IsNot)) and isinstance(b.left, ast.Call) \
                    and isinstance(b.left.func, ast.Attribute) and b.left.func.attr == 'get' and len(b.left.args) == 1:
                k += 1
                n += 1
                ctx.ob(rid, f'{m.name}.{fn.name}:get-is-none#{k}', True, '', m.rel, b.lineno)
            if not (isinstance(b, ast.BoolOp) and isinstance(b.op, ast.Or)):
                continue
            for v in b.values[:-1]:
                if isinstance(v, ast.Call) and isinstance(v.func, ast.Attribute) and v.func.attr == 'get' and len(v.args) == 1 and not v.keywords:
                    k += 1
                    n += 1
                    txt = ast.unparse(b)
                    ex = GET_EXEMPT.get((m.name, fn.name))
                    # `d.get(k) or <zero>`: a stored zero and a missing key both give the zero - no information is lost
                    zero_fallback = b.values.index(v) == len(b.values) - 2 and ast.unparse(b.values[-1]).replace(' ', '') in _ZERO_SRC
                    ok = ex is not None or zero_fallback
                    ctx.ob(rid, f'{m.name}.{fn.name}:get-or#{k}', ok, ('tabled: ' + ex) if ex else '' if ok else
                           f'`{txt[:90]}`: a value 0 / 0.0 / False stored under the key is treated as if the key were missing', m.rel, b.lineno)
    return n


# ---------------------------------------------------------------------------------------------------------------------
_MUT_METHODS = {'append', 'extend', 'insert', 'pop', 'remove', 'clear', 'update', 'setdefault', 'sort', 'reverse', 'add', 'discard', 'popitem', 'fill', 'resize'}


def constructor_purity_rule(ctx, rid: str, pid: str, floor: int = 1):
    repo = ctx.repo
    ctx.rule(rid, 'constructors leave their arguments alone: __init__ / __post_init__ / __new__ neither stores into an element of a parameter nor calls a mutating method on it '
             '(unless the name was rebound to a copy first) - the caller\'s dict / list is otherwise changed by building a value, and the value changes when the caller edits it later',
             floor=floor, style='EFF')
    n = 0
    for m, ci, fn in _functions(repo, pid):
        if fn.name not in ('__init__', '__new__', '__post_init__') or ci is None:
            continue
        params = {a.arg for a in fn.args.posonlyargs + fn.args.args + fn.args.kwonlyargs if a.arg not in ('self', 'cls')}
        if not params:
            continue
        rebound: Dict[str, int] = {}
        for s_ in ast.walk(fn):
            if isinstance(s_, (ast.Assign, ast.AugAssign, ast.AnnAssign)):
                for t in (s_.targets if isinstance(s_, ast.Assign) else [s_.target]):
                    if isinstance(t, ast.Name) and t.id in params:
                        rebound[t.id] = min(rebound.get(t.id, 10 ** 9), s_.lineno)
        bad = None
        for x in ast.walk(fn):
            nm = None
            if isinstance(x, ast.Subscript) and isinstance(x.ctx, (ast.Store, ast.Del)) and isinstance(x.value, ast.Name):
                nm = x.value.id
            elif isinstance(x, ast.Call) and isinstance(x.func, ast.Attribute) and x.func.attr in _MUT_METHODS and isinstance(x.func.value, ast.Name):
                nm = x.func.value.id
            if nm in params and x.lineno <= rebound.get(nm, 10 ** 9):
                bad = x
                break
        n += 1
        ok = bad is None
        ctx.ob(rid, f'{ci.qual}.{fn.name}:arguments-untouched', ok, '' if ok else
               f'`{ast.unparse(bad)[:70]}` changes the caller\'s object passed as a constructor argument', m.rel, (bad.lineno if bad is not None else fn.lineno))
    return n


OPT_EXEMPT = {
    ('cirq_google.serialization.circuit_serializer', 'CircuitSerializer._serialize_circuit_op', 'constants'):
        'in/out by contract: the constants table of the program being written is shared by all nested calls',
    ('cirq_google.serialization.circuit_serializer', 'CircuitSerializer._serialize_circuit_op', 'raw_constants'):
        'in/out by contract: index of the constants table shared by all nested calls',
}


def optional_argument_purity_rule(ctx, rid: str, pid: str, floor: int = 0):
    repo = ctx.repo
    ctx.rule(rid, 'optional option bags are inputs only: a parameter that defaults to None and is annotated `dict | None` / `list | None` / `set | None` (an optional bag of settings the caller '
             'may keep and reuse) is never stored into or mutated through a method (unless the name was rebound to a copy first) - what one call adds would otherwise be sent again by the next',
             floor=floor, style='EFF')
    n = 0
    for m, ci, fn in _functions(repo, pid):
        dflt = {}
        pos = fn.args.posonlyargs + fn.args.args
        for a, d in zip(pos[len(pos) - len(fn.args.defaults):], fn.args.defaults):
            dflt[a.arg] = d
        for a, d in zip(fn.args.kwonlyargs, fn.args.kw_defaults):
            if d is not None:
                dflt[a.arg] = d
        params = set()
        for a in pos + fn.args.kwonlyargs:
            if a.annotation is None or a.arg not in dflt:
                continue
            d = dflt[a.arg]
            ann = ast.unparse(a.annotation).replace(' ', '')
            if isinstance(d, ast.Constant) and d.value is None and ann.endswith('|None') and ann.split('[')[0].split('|')[0] in ('dict', 'list', 'set', 'Dict', 'List', 'Set'):
                params.add(a.arg)
        if not params:
            continue
        rebound: Dict[str, int] = {}
        for s_ in ast.walk(fn):
            if isinstance(s_, (ast.Assign, ast.AugAssign, ast.AnnAssign)):
                for t in (s_.targets if isinstance(s_, ast.Assign) else [s_.target]):
                    if isinstance(t, ast.Name) and t.id in params:
                        rebound[t.id] = min(rebound.get(t.id, 10 ** 9), s_.lineno)
        for p in sorted(params):
            bad = None
            for x in ast.walk(fn):
                nm = None
                if isinstance(x, ast.Subscript) and isinstance(x.ctx, (ast.Store, ast.Del)) and isinstance(x.value, ast.Name):
                    nm = x.value.id
                elif isinstance(x, ast.Call) and isinstance(x.func, ast.Attribute) and x.func.attr in _MUT_METHODS and isinstance(x.func.value, ast.Name):
                    nm = x.func.value.id
                if nm == p and x.lineno <= rebound.get(p, 10 ** 9):
                    bad = x
                    break
            n += 1
            qual = (ci.name + '.' if ci else '') + fn.name
            ex = OPT_EXEMPT.get((m.name, qual, p))
            if ex is not None:
                ctx.ob(rid, f'{m.name}.{qual}:{p}:input-only', True, 'tabled: ' + ex, m.rel, fn.lineno)
                continue
            ctx.ob(rid, f'{m.name}.{qual}:{p}:input-only', bad is None, '' if bad is None else
                   f'`{ast.unparse(bad)[:70]}` writes into the caller\'s optional `{p}`: a dict reused for the next call carries the entries of this one', m.rel,
                   bad.lineno if bad is not None else fn.lineno)
    return n


def single_use_generator_rule(ctx, rid: str, pid: str, floor: int = 0):
    repo = ctx.repo
    ctx.rule(rid, 'a generator is walked once: a local bound to a generator expression, or to the result of a repository function that contains `yield` (and is not wrapped in '
             'list / tuple / sorted / set / dict / frozenset), is used at most once along any one execution (uses in mutually exclusive branches aside) - the second consumer '
             '(an inverse, a second loop, a second call) silently gets nothing', floor=floor, style='TNT')
    n = 0
    for m, ci, fn in _functions(repo, pid):
        cands = {}
        for a in ast.walk(fn):
            if isinstance(a, ast.Assign) and len(a.targets) == 1 and isinstance(a.targets[0], ast.Name):
                v = a.value
                gen = isinstance(v, ast.GeneratorExp)
                if isinstance(v, ast.Call) and not gen:
                    d = dotted(v.func)
                    tgt = None
                    if d:
                        if d.startswith('self.') and ci is not None and d.count('.') == 1:
                            r = repo.find_method(ci, d.split('.')[1])
                            tgt = r[1] if r else None
                        else:
                            try:
                                r = repo.resolve_in_func(m, fn, d)
                            except Exception:
                                r = None
                            tgt = getattr(r, 'node', None)
                    if isinstance(tgt, (ast.FunctionDef,)):
                        own = [x for x in ast.walk(tgt) if isinstance(x, (ast.Yield, ast.YieldFrom))]
                        inner = {id(x) for f in ast.walk(tgt) if f is not tgt and isinstance(f, (ast.FunctionDef, ast.Lambda)) for x in ast.walk(f)}
                        gen = any(id(x) not in inner for x in own)
                if gen:
                    cands.setdefault(a.targets[0].id, []).append(a)
        if not cands:
            continue
        parents = m.parents()
        for name, defs in sorted(cands.items()):
            # all definitions of the name must be generators (otherwise the name is re-used for something else)
            alldefs = [a for a in ast.walk(fn) if isinstance(a, ast.Assign) and any(isinstance(t, ast.Name) and t.id == name for t in a.targets)]
            if len(alldefs) != len(defs):
                continue
            uses = [x for x in ast.walk(fn) if isinstance(x, ast.Name) and x.id == name and isinstance(x.ctx, ast.Load)]
            # cheap inspections do not consume
            real = []
            for u in uses:
                pp = parents.get(u)
                if isinstance(pp, ast.Compare) and any(isinstance(o, (ast.Is, ast.IsNot)) for o in pp.ops):
                    continue
                if isinstance(pp, ast.Call) and call_name(pp) in ('isinstance', 'id', 'type'):
                    continue
                real.append(u)
            n += 1
            clash = None
            for i in range(len(real)):
                for j in range(i + 1, len(real)):
                    if not _exclusive(parents, real[i], real[j], fn):
                        clash = (real[i], real[j])
                        break
                if clash:
                    break
            in_loop = None
            if clash is None:
                for u in real:
                    cur = u
                    while cur in parents and cur is not fn:
                        cur = parents[cur]
                        if isinstance(cur, (ast.For, ast.While)) and all(d_.lineno < cur.lineno for d_ in defs):
                            # consumed inside a loop that starts after the definition: once per iteration
                            if not (isinstance(cur, ast.For) and cur.iter is u) and not any(u is x for x in ast.walk(getattr(cur, 'iter', ast.Constant(value=None)))):
                                in_loop = u
                            break
            ok = clash is None and in_loop is None
            qual = (ci.name + '.' if ci else '') + fn.name
            ctx.ob(rid, f'{m.name}.{qual}:{name}', ok, '' if ok else
                   (f'`{name}` is a generator (line {defs[0].lineno}) and is consumed at line {clash[0].lineno} and again at line {clash[1].lineno}: the second consumer gets an empty sequence'
                    if clash else f'`{name}` is a generator (line {defs[0].lineno}) and is consumed inside a loop (line {in_loop.lineno}): empty from the second iteration on'),
                   m.rel, (clash[1].lineno if clash else (in_loop.lineno if in_loop is not None else defs[0].lineno)))
    return n



def memo_invalidation_rule(ctx, rid: str, pid: str, floor: int = 0):
    """A value memoised in a field (`if self._m is None: self._m = f(self._a, ...)`) is dropped wherever one of the fields it was computed from is reassigned."""
    repo = ctx.repo
    ctx.rule(rid, 'memo follows its sources: where a class fills a field lazily under `if self.<m> is None:` from other fields of self (no await: a fetched handle is not a memo), every '
             'other method that assigns or augments one of those source fields (outside __init__ / __setstate__, and not itself a lazy fill of that source) also assigns <m>, directly or '
             'through an own method that does - otherwise the next reader gets the value of the old state', floor=floor, style='COH')

    def is_self_attr(t):
        return isinstance(t, ast.Attribute) and isinstance(t.value, ast.Name) and t.value.id == 'self'

    def targets(st):
        return st.targets if isinstance(st, ast.Assign) else [st.target]
    seen_cls = []
    for m, ci, fn in _functions(repo, pid):
        if ci is not None and ci not in seen_cls:
            seen_cls.append(ci)
    n = 0
    for ci in sorted(seen_cls, key=lambda c: c.qual):
        memos: Dict[str, set] = {}
        lazy_writes = set()
        for mn, fn in ci.methods.items():
            for iff in ast.walk(fn):
                if not (isinstance(iff, ast.If) and isinstance(iff.test, ast.Compare) and len(iff.test.ops) == 1 and isinstance(iff.test.ops[0], ast.Is)
                        and is_self_attr(iff.test.left) and isinstance(iff.test.comparators[0], ast.Constant) and iff.test.comparators[0].value is None):
                    continue
                mname = iff.test.left.attr
                fills = [st for st in iff.body if isinstance(st, ast.Assign) and any(is_self_attr(t) and t.attr == mname for t in st.targets)]
                if not fills or any(isinstance(x, ast.Await) for s_ in iff.body for x in ast.walk(s_)):
                    continue
                for st in fills:
                    lazy_writes.add(id(st))
                src = {x.attr for s_ in iff.body for x in ast.walk(s_) if is_self_attr(x) and isinstance(x.ctx, ast.Load) and x.attr != mname and x.attr not in ci.methods}
                memos.setdefault(mname, set()).update(src)
        for mname, src in sorted(memos.items()):
            if not src:
                continue

            def assigns_memo(fn, depth=0):
                for st in ast.walk(fn):
                    if isinstance(st, (ast.Assign, ast.AugAssign, ast.AnnAssign)) and any(is_self_attr(t) and t.attr == mname for t in (targets(st) if not isinstance(st, ast.AnnAssign) else [st.target])):
                        return True
                    if isinstance(st, ast.Delete) and any(is_self_attr(t) and t.attr == mname for t in st.targets):
                        return True
                if depth < 2:
                    for c in ast.walk(fn):
                        if isinstance(c, ast.Call) and is_self_attr(c.func) and c.func.attr in ci.methods and ci.methods[c.func.attr] is not fn and assigns_memo(ci.methods[c.func.attr], depth + 1):
                            return True
                return False
            for mn, fn in sorted(ci.methods.items()):
                if mn in ('__init__', '__new__', '__setstate__', '__post_init__'):
                    continue
                ws = [st for st in ast.walk(fn) if isinstance(st, (ast.Assign, ast.AugAssign)) and id(st) not in lazy_writes
                      and any(is_self_attr(t) and t.attr in src for t in targets(st))]
                if not ws:
                    continue
                n += 1
                ok = assigns_memo(fn)
                ctx.ob(rid, f'{ci.qual}.{mn}:memo-{mname}', ok, '' if ok else
                       f'`{ast.unparse(ws[0])[:60]}` changes a field that the memoised `{mname}` was computed from ({sorted(src)}), but {mn} leaves `{mname}` as it is', ci.mod.rel, ws[0].lineno)
    return n


def emptiness_belief_rule(ctx, rid: str, pid: str, floor: int = 0):
    """Contradicted belief (Engler et al.): a function that tests whether a sequence may be empty does not take its first / last element where that test does not protect it."""
    from ..flow import dominating_atoms
    repo = ctx.repo
    ctx.rule(rid, 'first element only of a sequence known to be non-empty: where a function itself tests a local sequence in a way that admits the empty case (len(x) <= 1, len(x) < 2, '
             'len(x) == 0, not x), every x[0] / x[-1] in that function is dominated by a condition that excludes the empty case (x, len(x), len(x) > 0, len(x) >= 1, len(x) == k > 0, or '
             'the negation of one of the admitting tests) - the code states that x may be empty and then indexes it anyway', floor=floor, style='RG')

    def len_of(e):
        if isinstance(e, ast.Call) and isinstance(e.func, ast.Name) and e.func.id == 'len' and len(e.args) == 1 and isinstance(e.args[0], ast.Name):
            return e.args[0].id
        return None

    def own_nodes(fn):
        inner = {id(x) for f in ast.walk(fn) if f is not fn and isinstance(f, (ast.FunctionDef, ast.AsyncFunctionDef, ast.Lambda)) for x in ast.walk(f)}
        return [x for x in ast.walk(fn) if id(x) not in inner]

    def nonempty(atom, pol, x):
        if isinstance(atom, ast.Name) and atom.id == x:
            return pol
        if len_of(atom) == x:
            return pol
        if isinstance(atom, ast.Compare) and len(atom.ops) == 1 and isinstance(atom.comparators[0], ast.Constant) and isinstance(atom.comparators[0].value, int) and len_of(atom.left) == x:
            k = atom.comparators[0].value
            op = type(atom.ops[0]).__name__
            if pol:
                return (op == 'Gt' and k >= 0) or (op == 'GtE' and k >= 1) or (op == 'Eq' and k >= 1) or (op == 'NotEq' and k == 0)
            return (op == 'LtE' and k >= 0) or (op == 'Lt' and k >= 1) or (op == 'Eq' and k == 0)
        return False
    n = 0
    for m, ci, fn in _functions(repo, pid):
        nodes = own_nodes(fn)
        beliefs: Dict[str, ast.AST] = {}
        for t in nodes:
            if isinstance(t, ast.Compare) and len(t.ops) == 1 and isinstance(t.comparators[0], ast.Constant) and isinstance(t.comparators[0].value, int):
                x, k, op = len_of(t.left), t.comparators[0].value, type(t.ops[0]).__name__
                if x and ((op == 'LtE' and k >= 0) or (op == 'Lt' and k >= 1) or (op == 'Eq' and k == 0)):
                    beliefs.setdefault(x, t)
            if isinstance(t, ast.UnaryOp) and isinstance(t.op, ast.Not) and isinstance(t.operand, ast.Name):
                beliefs.setdefault(t.operand.id, t)
        if not beliefs:
            continue
        par = m.parents()
        for s_ in nodes:
            if not (isinstance(s_, ast.Subscript) and isinstance(s_.value, ast.Name) and s_.value.id in beliefs and isinstance(s_.ctx, ast.Load)):
                continue
            idx = s_.slice
            v = -idx.operand.value if isinstance(idx, ast.UnaryOp) and isinstance(idx.op, ast.USub) and isinstance(idx.operand, ast.Constant) else \
                idx.value if isinstance(idx, ast.Constant) and isinstance(idx.value, int) and not isinstance(idx.value, bool) else None
            if v not in (0, -1):
                continue
            x = s_.value.id
            n += 1
            ok = any(nonempty(a, p_, x) for a, p_ in dominating_atoms(par, s_, fn))
            ctx.ob(rid, f'{m.name}.{(ci.name + ".") if ci else ""}{fn.name}:{ast.unparse(s_)}', ok, '' if ok else
                   f'`{ast.unparse(s_)}` is taken where `{x}` may be empty: the function itself tests `{ast.unparse(beliefs[x])}`, and nothing on the way to this line excludes the empty case', m.rel, s_.lineno)
    return n


def inverted_relation_rule(ctx, rid: str, pid: str, floor: int = 0):
    """Inverting a one-to-many relation into a plain dictionary: `for i, group in enumerate(groups): for x in group: back[x] = i`."""
    repo = ctx.repo
    ctx.rule(rid, 'a back-mapping keeps every owner: where a nested loop stores `d[<inner loop variable>] = <outer loop variable>` and d is only read after the loops (a back-mapping, '
             'not a running tracker that the loop itself consults), the function guards against an inner value that occurs under two outer ones (a membership test on d) or stores a '
             'collection per key - otherwise the later group silently takes over what belongs to both (a Pauli string that appears in two observables)', floor=floor, style='EFF')

    def names(t):
        return {x.id for x in ast.walk(t) if isinstance(x, ast.Name)}
    n = 0
    for m, ci, fn in _functions(repo, pid):
        for outer in ast.walk(fn):
            if not isinstance(outer, ast.For):
                continue
            ov = names(outer.target)
            for inner in ast.walk(outer):
                if inner is outer or not isinstance(inner, ast.For) or not (names(inner.iter) & ov):
                    continue
                iv = names(inner.target)
                for st in inner.body:
                    if not (isinstance(st, ast.Assign) and len(st.targets) == 1 and isinstance(st.targets[0], ast.Subscript) and isinstance(st.targets[0].value, ast.Name)):
                        continue
                    key, val = names(st.targets[0].slice), names(st.value)
                    if not (key and key <= iv and val and val <= ov):
                        continue
                    d = st.targets[0].value.id
                    # a tracker is read inside the outer loop (other than by this store); a guard tests membership
                    top = outer   # the outermost loop around the store: a tracker is consulted somewhere in it
                    par = m.parents()
                    cur = outer
                    while cur in par and cur is not fn:
                        cur = par[cur]
                        if isinstance(cur, (ast.For, ast.While)):
                            top = cur
                    reads = [x for x in ast.walk(top) if isinstance(x, ast.Name) and x.id == d and isinstance(x.ctx, ast.Load) and x is not st.targets[0].value]
                    if reads:
                        continue
                    n += 1
                    ctx.ob(rid, f'{m.name}.{(ci.name + ".") if ci else ""}{fn.name}:{d}', False,
                           f'`{ast.unparse(st)}` inverts a one-to-many relation: a value of the inner loop that occurs under two values of the outer loop keeps only the last, and nothing '
                           f'in the loops looks at `{d}` to notice', m.rel, st.lineno)
    return n


def coordinate_index_rule(ctx, rid: str, pid: str, floor: int = 0):
    """A coordinate of a caller's qubit that becomes a position (container index, position in a payload) is checked for sign first."""
    repo = ctx.repo
    ctx.rule(rid, 'coordinates are not positions until checked: where the .x of the qubits of an operation handed in by the caller (a loop / comprehension over <op>.qubits or <ps>.qubits) '
             'is used as the index of a store into a container, or collected as the list of positions of a payload entry, the function compares the coordinate with 0 (to refuse '
             'negative ones) - Python wraps a negative index to the other end, so LineQubit(-1) silently becomes the last position', floor=floor, style='RG')
    n = 0
    for m, ci, fn in _functions(repo, pid):
        # names bound by iterating over something ending in .qubits, or over a local bound to such (through cast(...))
        qsrc = set()
        for a in ast.walk(fn):
            if isinstance(a, ast.Assign) and len(a.targets) == 1 and isinstance(a.targets[0], ast.Name) and any(isinstance(x, ast.Attribute) and x.attr == 'qubits' for x in ast.walk(a.value)):
                qsrc.add(a.targets[0].id)

        def over_qubits(it):
            return any(isinstance(x, ast.Attribute) and x.attr == 'qubits' for x in ast.walk(it)) or any(isinstance(x, ast.Name) and x.id in qsrc for x in ast.walk(it))
        qvars = set()
        for x in ast.walk(fn):
            if isinstance(x, ast.For) and isinstance(x.target, ast.Name) and over_qubits(x.iter):
                qvars.add(x.target.id)
            if isinstance(x, ast.comprehension) and isinstance(x.target, ast.Name) and over_qubits(x.iter):
                qvars.add(x.target.id)
        if not qvars:
            continue

        def is_coord(e):
            return isinstance(e, ast.Attribute) and e.attr == 'x' and isinstance(e.value, ast.Name) and e.value.id in qvars
        uses = []
        for x in ast.walk(fn):
            if isinstance(x, ast.Subscript) and isinstance(x.ctx, ast.Store) and is_coord(x.slice):
                uses.append(x)
            if isinstance(x, ast.ListComp) and is_coord(x.elt):
                uses.append(x)
        if not uses:
            continue
        # local names holding the collected coordinates
        held = {a.targets[0].id for a in ast.walk(fn) if isinstance(a, ast.Assign) and len(a.targets) == 1 and isinstance(a.targets[0], ast.Name)
                and isinstance(a.value, ast.ListComp) and is_coord(a.value.elt)}
        checked = False
        for c in ast.walk(fn):
            if isinstance(c, ast.Compare) and len(c.ops) == 1 and isinstance(c.ops[0], (ast.Lt, ast.GtE, ast.Gt, ast.LtE)):
                sides = [c.left, c.comparators[0]]
                zero = any(isinstance(s_, ast.Constant) and s_.value == 0 for s_ in sides)
                coord = any(is_coord(s_) or (isinstance(s_, ast.Name)) for s_ in sides if not isinstance(s_, ast.Constant))
                if zero and coord:
                    # the compared name is the coordinate itself or an element of a held list
                    other = [s_ for s_ in sides if not isinstance(s_, ast.Constant)][0]
                    if is_coord(other):
                        checked = True
                    elif isinstance(other, ast.Name):
                        # `idx < 0 for idx in qubit_idx`
                        for g in ast.walk(fn):
                            if isinstance(g, ast.comprehension) and isinstance(g.target, ast.Name) and g.target.id == other.id and isinstance(g.iter, ast.Name) and g.iter.id in held:
                                checked = True
        n += 1
        ctx.ob(rid, f'{m.name}.{(ci.name + ".") if ci else ""}{fn.name}:coordinate-as-position', checked, '' if checked else
               f'`{ast.unparse(uses[0])[:70]}` turns the coordinate of a qubit of the caller into a position, and the function never compares it with 0: a negative coordinate wraps around',
               m.rel, uses[0].lineno)
    return n


_ABSENCE_TABLE = {}


def _absence_table(repo):
    """function name (unique in the repository, annotated `-> T | None` with T sized) -> [(module, function, call, how absence is tested)]"""
    key = id(repo)
    if key in _ABSENCE_TABLE:
        return _ABSENCE_TABLE[key]
    byname = {}
    for c in repo.classes.values():
        byname.setdefault(c.name, []).append(c)

    def sized(t):
        if t in ('list', 'tuple', 'dict', 'set', 'str', 'Sequence', 'frozenset'):
            return True
        return any('__len__' in k.methods or '__bool__' in k.methods for c in byname.get(t, []) for k in repo.mro(c))
    defs = {}
    for m, ci, fn in repo.all_functions():
        defs.setdefault(fn.name, []).append(fn)
    cands = {}
    for name, fns in defs.items():
        if len(fns) != 1 or fns[0].returns is None:
            continue
        r = ast.unparse(fns[0].returns).replace("'", '').replace('"', '')
        if '| None' not in r and 'None |' not in r and 'Optional[' not in r:
            continue
        parts = [p_.strip() for p_ in r.replace('Optional[', '').rstrip(']').split('|') if p_.strip() != 'None']
        if len(parts) == 1 and sized(parts[0].split('.')[-1].split('[')[0]):
            cands[name] = parts[0]
    table = {}
    for m, ci, fn in repo.all_functions():
        if m.rel.endswith('_test.py') or '/testing/' in m.rel:
            continue
        par = None
        for c in ast.walk(fn):
            if not (isinstance(c, ast.Call) and call_name(c).split('.')[-1] in cands):
                continue
            if par is None:
                par = m.parents()
            name = call_name(c).split('.')[-1]
            p_ = par.get(c)
            holder = p_ if isinstance(p_, ast.NamedExpr) else c
            q = par.get(holder)
            how = None
            if isinstance(q, ast.Compare) and len(q.ops) == 1 and isinstance(q.ops[0], (ast.Is, ast.IsNot)) and isinstance(q.comparators[0], ast.Constant) and q.comparators[0].value is None:
                how = 'none'
            elif isinstance(q, (ast.If, ast.While, ast.IfExp)) and q.test is holder:
                how = 'truth'
            elif isinstance(q, ast.UnaryOp) and isinstance(q.op, ast.Not):
                how = 'truth'
            elif isinstance(q, ast.BoolOp):
                how = 'truth'
            elif isinstance(q, ast.Assign) and len(q.targets) == 1 and isinstance(q.targets[0], ast.Name):
                v = q.targets[0].id
                for t in ast.walk(fn):
                    if isinstance(t, ast.Compare) and len(t.ops) == 1 and isinstance(t.ops[0], (ast.Is, ast.IsNot)) and isinstance(t.left, ast.Name) and t.left.id == v \
                            and isinstance(t.comparators[0], ast.Constant) and t.comparators[0].value is None:
                        how = 'none'
                if how is None:
                    for t in ast.walk(fn):
                        if isinstance(t, (ast.If, ast.While, ast.IfExp)):
                            u = t.test.operand if isinstance(t.test, ast.UnaryOp) and isinstance(t.test.op, ast.Not) else t.test
                            if isinstance(u, ast.Name) and u.id == v:
                                how = 'truth'
            if how:
                table.setdefault(name, []).append((m, ci, fn, c, how, cands[name]))
    _ABSENCE_TABLE[key] = table
    return table


def absence_test_rule(ctx, rid: str, pid: str, floor: int = 0):
    """Sibling call sites agree on how the absence of a result is tested."""
    repo = ctx.repo
    ctx.rule(rid, 'absent means None: for a repository function annotated `-> T | None` where T is sized (an empty T is falsy), a call site that tests the result by truthiness while '
             'other call sites of the same function test `is None` / `is not None` treats the empty value as absent - one of the two beliefs is wrong, and it is the truthiness '
             'one whenever an empty T is a legal result (an identity Pauli string has no factors)', floor=floor, style='COH')
    table = _absence_table(repo)
    mine = {(m.rel, fn.name) for m, ci, fn in _functions(repo, pid)}
    n = 0
    for name, sites in sorted(table.items()):
        hows = {h for *_, h, _t in sites}
        if 'none' not in hows:
            continue
        for m, ci, fn, c, how, t in sites:
            if (m.rel, fn.name) not in mine:
                continue
            n += 1
            ctx.ob(rid, f'{m.name}.{(ci.name + ".") if ci else ""}{fn.name}:{name}@{c.lineno - fn.lineno}', how == 'none', '' if how == 'none' else
                   f'the result of {name}() ({t} | None) is tested by truthiness here, while {sum(1 for s_ in sites if s_[4] == "none")} other call site(s) test `is None`: an empty {t} is '
                   'taken for "no result"', m.rel, c.lineno)
    return n


def one_shot_in_loop_rule(ctx, rid: str, pid: str, floor: int = 0):
    """A parameter that may be a one-shot iterable is not consumed once per iteration of a loop."""
    repo = ctx.repo
    ctx.rule(rid, 'a one-shot argument is not used per iteration: a parameter annotated Iterable / Iterator / Generator (not a union with bool: an option flag) that the function never '
             're-binds to a materialised copy is not iterated, zipped or handed to a call inside the body of a loop that runs over something else - a generator, map or filter object '
             'is empty from the second iteration on, so later moments / observables / rows silently see no qubits, keys or types', floor=floor, style='TNT')
    ONE = ('Iterable', 'Iterator', 'Generator')
    BENIGN = {'isinstance', 'len', 'type', 'id', 'repr', 'str', 'bool', 'callable', 'hasattr', 'getattr', 'cast'}

    def one(a):
        if a.annotation is None:
            return False
        parts = [p_.strip().strip('\'"').split('[')[0].split('.')[-1] for p_ in ast.unparse(a.annotation).split('|')]
        return any(p_ in ONE for p_ in parts) and 'bool' not in parts
    n = 0
    for m, ci, fn in _functions(repo, pid):
        params = {a.arg for a in fn.args.args + fn.args.kwonlyargs if one(a)}
        if not params:
            continue
        rebound = {t.id for s_ in ast.walk(fn) if isinstance(s_, (ast.Assign, ast.AnnAssign)) for t in (s_.targets if isinstance(s_, ast.Assign) else [s_.target])
                   if isinstance(t, ast.Name)} & params
        par = m.parents()
        for p_ in sorted(params - rebound):
            hits = []
            for l in ast.walk(fn):
                if not isinstance(l, (ast.For, ast.While)):
                    continue
                if isinstance(l, ast.For) and any(isinstance(x, ast.Name) and x.id == p_ for x in ast.walk(l.iter)):
                    continue
                for x in [y for s_ in l.body for y in ast.walk(s_)]:
                    if isinstance(x, ast.Name) and x.id == p_ and isinstance(x.ctx, ast.Load):
                        pp = par.get(x)
                        if (isinstance(pp, (ast.For, ast.comprehension)) and pp.iter is x) or isinstance(pp, ast.Starred) \
                                or (isinstance(pp, ast.Call) and x in pp.args and (call_name(pp) or '').split('.')[-1] not in BENIGN) or isinstance(pp, ast.keyword):
                            hits.append((x, pp))
            if not hits and not any(isinstance(l, (ast.For, ast.While)) for l in ast.walk(fn)):
                continue
            n += 1
            ctx.ob(rid, f'{m.name}.{(ci.name + ".") if ci else ""}{fn.name}:{p_}', not hits, '' if not hits else
                   f'`{ast.unparse(hits[0][1])[:60]}` consumes `{p_}` inside a loop, and `{p_}` is never turned into a tuple / list first: with a generator argument every iteration after the '
                   'first sees nothing', m.rel, hits[0][0].lineno if hits else fn.lineno)
    return n

def stale_read_rule(ctx, rid: str, pid: str, floor: int = 0):
    """A value read from X[b] before a store to X[a] is written back to X[b] - lost update when a == b."""
    repo = ctx.repo
    ctx.rule(rid, 'no read-modify-write across a store that may alias it: where two indices a, b come from the same unpacking (a window start and end, a pair of positions) and the function '
             'never compares them, a value read from X[b] that is written back into X[b] is read after every store into X[a] of the same block - read earlier, the update made through a is '
             'overwritten whenever a == b (a one-moment window, a self-pair)', floor=floor, style='TNT')

    def sub_index(e):
        """(base text, index name) of the innermost subscript X[i] with a plain-name index inside e"""
        cur = e
        found = None
        while isinstance(cur, (ast.Subscript, ast.Attribute, ast.Call)):
            if isinstance(cur, ast.Subscript) and isinstance(cur.slice, ast.Name):
                found = (ast.unparse(cur.value), cur.slice.id)
            cur = cur.func if isinstance(cur, ast.Call) else cur.value
        return found
    n = 0
    for m, ci, fn in _functions(repo, pid):
        pairs = set()
        for x in ast.walk(fn):
            tgt = None
            if isinstance(x, (ast.For, ast.comprehension)):
                tgt = x.target
            elif isinstance(x, ast.Assign) and len(x.targets) == 1:
                tgt = x.targets[0]
            if isinstance(tgt, ast.Tuple) and all(isinstance(e, ast.Name) for e in tgt.elts):
                ids = [e.id for e in tgt.elts]
                pairs |= {(a, b) for a in ids for b in ids if a != b}
        if not pairs:
            continue
        compared = set()
        for x in ast.walk(fn):
            if isinstance(x, ast.Compare):
                ns = {y.id for y in ast.walk(x) if isinstance(y, ast.Name)}
                compared |= {(a, b) for a in ns for b in ns}
        reads = []    # (position, local, base, index)
        stores = []   # (position, base, index, value names, node)
        for x in ast.walk(fn):
            if isinstance(x, (ast.Assign, ast.NamedExpr)):
                t = x.targets[0] if isinstance(x, ast.Assign) and len(x.targets) == 1 else getattr(x, 'target', None)
                pos = (x.lineno, x.col_offset)
                if isinstance(t, ast.Name):
                    si = sub_index(x.value)
                    if si:
                        reads.append((pos, t.id, si[0], si[1]))
                if isinstance(x, ast.Assign) and isinstance(t, ast.Subscript):
                    si = sub_index(t)
                    if si:
                        stores.append((pos, si[0], si[1], {y.id for y in ast.walk(x.value) if isinstance(y, ast.Name)}, x))
        done = set()
        for (rp, loc, base, b) in sorted(reads):
            back = sorted((s_ for s_ in stores if s_[1] == base and s_[2] == b and loc in s_[3] and s_[0] > rp), key=lambda s_: s_[0])
            # the local must not be re-bound between the read and the write-back
            back = [s_ for s_ in back if not any(r_[1] == loc and rp < r_[0] < s_[0] for r_ in reads)]
            if not back or (base, b) in done:
                continue
            others = [s_ for s_ in stores if s_[1] == base and s_[2] != b and (s_[2], b) in pairs and (s_[2], b) not in compared]
            if not others:
                continue
            done.add((base, b))
            n += 1
            bad = [s_ for s_ in others if rp < s_[0] < back[0][0]]
            ctx.ob(rid, f'{m.name}.{(ci.name + ".") if ci else ""}{fn.name}:{base}[{b}]', not bad, '' if not bad else
                   f'`{loc}` is read from {base}[{b}] before `{ast.unparse(bad[0][4].targets[0])} = ...` and written back to {base}[{b}] after it; {bad[0][2]} and {b} come from the same '
                   f'unpacking and are never compared: when {bad[0][2]} == {b} the first update is lost', m.rel, bad[0][4].lineno if bad else rp[0])
    return n

def partial_mask_zip_rule(ctx, rid: str, pid: str, floor: int = 0):
    """A measurement gate's raw invert_mask (possibly shorter than the qubits) is not zipped position by position unless absence means nothing."""
    repo = ctx.repo
    ctx.rule(rid, 'a partial mask is padded before it is paired: `<gate>.invert_mask` may be shorter than the qubits (documented; full_invert_mask() pads it). A zip of the raw attribute '
             '(or of a local bound to it, `mask or (False,) * n` included) with the qubits is accepted only where a missing position means "nothing to do" - the comprehension filters on '
             'the mask bit - or the local is padded (`+ (False,) * deficit`) on the way; otherwise the trailing qubits silently get no element (no identity placeholder, no measurement)',
             floor=floor, style='TNT')

    def raw(e, fn, depth=0):
        """True if e is the raw attribute / a local bound only to raw forms and never padded"""
        if isinstance(e, ast.Attribute) and e.attr in ('invert_mask', '_invert_mask'):
            return True
        if isinstance(e, ast.BoolOp) and isinstance(e.op, ast.Or):
            return raw(e.values[0], fn, depth)
        if isinstance(e, ast.Call) and isinstance(e.func, ast.Name) and e.func.id in ('tuple', 'list') and e.args:
            return raw(e.args[0], fn, depth)
        if isinstance(e, ast.Name) and depth < 3:
            vals = [a.value for a in ast.walk(fn) if isinstance(a, ast.Assign) and any(isinstance(t, ast.Name) and t.id == e.id for t in a.targets)]
            vals += [a.value for a in ast.walk(fn) if isinstance(a, ast.AugAssign) and isinstance(a.target, ast.Name) and a.target.id == e.id]
            if not vals:
                return False
            if any(isinstance(v, ast.BinOp) and isinstance(v.op, ast.Add) for v in vals) or any(isinstance(a, ast.AugAssign) and isinstance(a.target, ast.Name) and a.target.id == e.id
                                                                                                   for a in ast.walk(fn)):
                return False    # padded on the way
            return any(raw(v, fn, depth + 1) for v in vals)
        return False
    n = 0
    for m, ci, fn in _functions(repo, pid):
        par = None
        for c in ast.walk(fn):
            if not (isinstance(c, ast.Call) and isinstance(c.func, ast.Name) and c.func.id == 'zip' and len(c.args) >= 2):
                continue
            idx = [i for i, a in enumerate(c.args) if raw(a, fn)]
            if not idx:
                continue
            n += 1
            ok = any(k.arg == 'strict' and isinstance(k.value, ast.Constant) and k.value.value is True for k in c.keywords)
            par = par or m.parents()
            comp = par.get(c)
            if not ok and isinstance(comp, ast.comprehension) and comp.iter is c and isinstance(comp.target, ast.Tuple) and len(comp.target.elts) == len(c.args):
                bit = comp.target.elts[idx[0]]
                if isinstance(bit, ast.Name):
                    for cond in comp.ifs:
                        if (isinstance(cond, ast.Name) and cond.id == bit.id) or any(isinstance(x, ast.Name) and x.id == bit.id for x in ast.walk(cond)):
                            ok = True
            ctx.ob(rid, f'{m.name}.{(ci.name + ".") if ci else ""}{fn.name}:zip@{c.lineno - fn.lineno}', ok, '' if ok else
                   f'`{ast.unparse(c)[:70]}` pairs the qubits with a raw invert_mask, which may be shorter: the qubits after the end of a partial mask get no element '
                   '(use full_invert_mask() or pad the mask)', m.rel, c.lineno)
    return n

def shallow_hashable_test_rule(ctx, rid: str, pid: str, floor: int = 0):
    """isinstance(x, Hashable) is not a test that hash(x) works for element data."""
    repo = ctx.repo
    ctx.rule(rid, 'hashability of data is decided by hashing it: `isinstance(x, Hashable)` only says the type defines __hash__ - a tuple holding a list passes and then fails inside '
             'frozenset() / dict lookup / hash(). Where x is an element of a container being scanned (a loop or comprehension variable: arbitrary user data such as gate arguments), the '
             'test must be a `hash(x)` attempt', floor=floor, style='TNT')
    n = 0
    for m, ci, fn in _functions(repo, pid):
        elem = set()
        for x in ast.walk(fn):
            if isinstance(x, (ast.For, ast.comprehension)):
                elem |= {y.id for y in ast.walk(x.target) if isinstance(y, ast.Name)}
        if not elem:
            continue
        for c in ast.walk(fn):
            if isinstance(c, ast.Call) and isinstance(c.func, ast.Name) and c.func.id == 'isinstance' and len(c.args) == 2 and isinstance(c.args[0], ast.Name) and c.args[0].id in elem:
                names = [ast.unparse(e).split('.')[-1] for e in (c.args[1].elts if isinstance(c.args[1], ast.Tuple) else [c.args[1]])]
                if names == ['Hashable']:
                    n += 1
                    ctx.ob(rid, f'{m.name}.{(ci.name + ".") if ci else ""}{fn.name}:{c.args[0].id}@{c.lineno - fn.lineno}', False,
                           f'`{ast.unparse(c)}` decides whether the element `{c.args[0].id}` can be hashed: a tuple that holds a list is a Hashable instance and still raises TypeError '
                           'when hashed - equality, hash and repr round trips of the owner then raise', m.rel, c.lineno)
    return n

def aggregate_stride_rule(ctx, rid: str, pid: str, floor: int = 0):
    """A per-item result is cut apart with a stride computed from an aggregate over all items."""
    repo = ctx.repo
    from ..flow import name_deps
    ctx.rule(rid, 'a batch is cut apart with its own stride: inside `for item, ... in zip(ITEMS, ...)` / `for item in ITEMS`, a slice of `item` whose bounds use a name that is not assigned in '
             'the loop body but was computed, before the loop, from ITEMS as a whole (a total or an average over all batches) - batches of different sizes are then split at the wrong '
             'places and results go to a neighbouring program', floor=floor, style='TNT')
    n = 0
    for m, ci, fn in _functions(repo, pid):
        for l in ast.walk(fn):
            if not isinstance(l, ast.For):
                continue
            it_ = l.iter
            srcs = []
            if isinstance(it_, ast.Call) and isinstance(it_.func, ast.Name) and it_.func.id in ('zip', 'enumerate') and it_.args:
                srcs = [a for a in it_.args if isinstance(a, ast.Name)]
                tg = l.target.elts if isinstance(l.target, ast.Tuple) else [l.target]
                if it_.func.id == 'enumerate':
                    tg = tg[1:]
            elif isinstance(it_, ast.Name):
                srcs = [it_]
                tg = [l.target]
            else:
                continue
            pairs = [(t.id, s_.id) for t, s_ in zip(tg, srcs) if isinstance(t, ast.Name)] if not (isinstance(it_, ast.Call) and it_.func.id == 'zip') else \
                [(t.id, a.id) for t, a in zip(tg, it_.args) if isinstance(t, ast.Name) and isinstance(a, ast.Name)]
            if not pairs:
                continue
            assigned_in = {t.id for st in l.body for x in ast.walk(st) for t in ast.walk(x) if isinstance(t, ast.Name) and isinstance(t.ctx, ast.Store)}
            for item, coll in pairs:
                dep = None
                for sub in [x for st in l.body for x in ast.walk(st) if isinstance(x, ast.Subscript) and isinstance(x.value, ast.Name) and x.value.id == item and isinstance(x.slice, ast.Slice)]:
                    names = {y.id for b in (sub.slice.lower, sub.slice.upper) if b is not None for y in ast.walk(b) if isinstance(y, ast.Name)} - assigned_in - {item}
                    if dep is None:
                        dep = name_deps(fn, {coll: {'<ALL>'}})
                    n += 1
                    bad = sorted(k for k in names if '<ALL>' in dep.get(k, set()) and k != coll)
                    ctx.ob(rid, f'{m.name}.{(ci.name + ".") if ci else ""}{fn.name}:{item}[{ast.unparse(sub.slice)[:30]}]', not bad, '' if not bad else
                           f'`{ast.unparse(sub)[:60]}` cuts one element of `{coll}` with `{bad[0]}`, which is computed once from `{coll}` as a whole and not in the loop: elements of '
                           'different length are split at the wrong places', m.rel, sub.lineno)
    return n

FLOORS = {   # (z_fwd, z_drop, z_pair): about two thirds of the instances confirmed on the tree the rules were armed on
    'C01': (7, 40, 11),
    'C02': (4, 55, 8),
    'C03': (2, 34, 3),
    'C04': (6, 61, 12),
    'C05': (2, 28, 11),
    'C06': (7, 46, 17),
    'C07': (2, 32, 6),
    'C08': (4, 51, 7),
    'C09': (6, 48, 4),
    'C10': (5, 78, 11),
    'C11': (2, 14, 5),
    'C12': (2, 34, 4),
    'C13': (2, 30, 2),
    'C14': (1, 48, 9),
    'C16': (10, 28, 3),
    'C17': (2, 12, 6),
    'C18': (4, 35, 9),
    'C19': (2, 20, 3),
    'C20': (8, 100, 6),
}


def apply(ctx, pid: str, only=None):
    """Registers the general rules for property `pid` under ids <pid>.z_*."""
    f1, f2, f3 = FLOORS[pid]
    rules = {
        'z_fwd': lambda: sibling_forwarding_rule(ctx, f'{pid}.z_fwd', pid, floor=f1),
        'z_drop': lambda: dropped_parameter_rule(ctx, f'{pid}.z_drop', pid, floor=f2),
        'z_pair': lambda: unordered_pairing_rule(ctx, f'{pid}.z_pair', pid, floor=f3),
        'z_get': lambda: lookup_truthiness_rule(ctx, f'{pid}.z_get', pid, floor=0),
        'z_ctor': lambda: constructor_purity_rule(ctx, f'{pid}.z_ctor', pid, floor=1),
        'z_opt': lambda: optional_argument_purity_rule(ctx, f'{pid}.z_opt', pid, floor=0),
        'z_gen': lambda: single_use_generator_rule(ctx, f'{pid}.z_gen', pid, floor=0),
        'z_memo': lambda: memo_invalidation_rule(ctx, f'{pid}.z_memo', pid, floor=0),
        'z_first': lambda: emptiness_belief_rule(ctx, f'{pid}.z_first', pid, floor=0),
        'z_inv': lambda: inverted_relation_rule(ctx, f'{pid}.z_inv', pid, floor=0),
        'z_coord': lambda: coordinate_index_rule(ctx, f'{pid}.z_coord', pid, floor=0),
        'z_none': lambda: absence_test_rule(ctx, f'{pid}.z_none', pid, floor=0),
        'z_loop': lambda: one_shot_in_loop_rule(ctx, f'{pid}.z_loop', pid, floor=0),
        'z_stale': lambda: stale_read_rule(ctx, f'{pid}.z_stale', pid, floor=0),
        'z_mask': lambda: partial_mask_zip_rule(ctx, f'{pid}.z_mask', pid, floor=0),
        'z_hash': lambda: shallow_hashable_test_rule(ctx, f'{pid}.z_hash', pid, floor=0),
        'z_stride': lambda: aggregate_stride_rule(ctx, f'{pid}.z_stride', pid, floor=0),
    }
    out = {}
    for k, f in rules.items():
        if only is None or k in only:
            out[k] = f()
    ctx.decided.append(f'{pid}.z_* general rules on the functions attributed to this property: sibling calls forward the same parameters (z_fwd), a wrapper does not swallow an option its '
                       'callee accepts (z_drop), positional pairing only over ordered collections (z_pair), presence of a key is not tested by truthiness of the value (z_get), constructors do not mutate their arguments (z_ctor), optional option bags are inputs only (z_opt), generators are consumed once (z_gen), a lazily memoised field is dropped wherever its source fields are reassigned (z_memo), x[0] / x[-1] only where the function\'s own emptiness test protects it (z_first), a back-mapping built in a nested loop does not drop owners (z_inv), a qubit coordinate becomes a position only after a sign check (z_coord), call sites of one `T | None` function agree that absent means None (z_none), a one-shot iterable parameter is not consumed per loop iteration (z_loop), a read-modify-write of X[b] does not straddle a store to X[a] when a and b may coincide (z_stale), a raw partial invert_mask is not paired with the qubits position by position (z_mask), hashability of element data is decided by hash(), not by isinstance(x, Hashable) (z_hash), one element of a collection is not sliced with a stride computed from the whole collection (z_stride)')
    return out
