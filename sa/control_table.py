"""Hand-written controls for the thorough tier (see controls.py).

Each entry: (name, kind, file, qualified function/class or None, regex, replacement, expected rule-id prefix or None)
kind 'break': the edit breaks one instance of the named rule while the code still parses (and would still import);
kind 'twin' : the edit is a behaviour-preserving refactoring - the verdict must not change.
The regex is applied inside the source segment of the named function only and must match exactly once.
"""
CC = 'cirq-core/cirq/'
CG = 'cirq-google/cirq_google/'
CI = 'cirq-ionq/cirq_ionq/'
CA = 'cirq-aqt/cirq_aqt/'

SV = CC + 'sim/state_vector_simulation_state.py'
SB = CC + 'sim/simulator_base.py'
CGATES = CC + 'ops/common_gates.py'

HAND = {
    'C01': [
        ('sweep-prefix-admits-parameterized-ops', 'break', SB, 'SimulatorBase.simulate_sweep_iter',
         r' and not protocols\.is_parameterized\(op\)', '', 'C01.b'),
        ('replay-shares-the-state', 'break', SB, 'SimulatorBase._run',
         r'sim_state\.copy\(deep_copy_buffers=False\) if i < repetitions - 1 else sim_state', 'sim_state', 'C01.c'),
        ('mixture-result-left-in-buffer', 'break', SV, '_BufferedStateVector.apply_mixture',
         r'self\._swap_target_tensor_for\(self\._buffer\)', 'pass', 'C01.a'),
        ('swap-forgets-to-recycle-buffer', 'break', SV, '_BufferedStateVector._swap_target_tensor_for',
         r'if new_target_tensor is self\._buffer:\n\s+self\._buffer = self\._state_vector\n\s+', '', 'C01.a'),
        ('x-kernel-writes-both-halves-from-one', 'break', CGATES, 'XPowGate._apply_unitary_',
         r'args\.available_buffer\[one\] = args\.target_tensor\[zero\]', 'args.available_buffer[one] = args.target_tensor[one]', 'C01.k'),
        ('sweep-prefix-as-early-return', 'twin', SB, 'SimulatorBase.simulate_sweep_iter',
         r'return self\._can_be_in_run_prefix\(op\) and not protocols\.is_parameterized\(op\)',
         'if protocols.is_parameterized(op):\n                return False\n            return self._can_be_in_run_prefix(op)', None),
    ],
}
