"""Hand-written controls for the thorough tier (see controls.py).

Each entry: (name, kind, file, qualified function/class or None, regex, replacement, expected rule-id prefix or None)
kind 'break': the edit breaks one instance of the named rule while the code still parses (and would still import);
kind 'twin' : the edit is a behaviour-preserving refactoring - the verdict must not change.
The regex is applied inside the source segment of the named function only and must match exactly once.
"""
CC = 'cirq-core/cirq/'
CG = 'cirq-google/cirq_google/'
CI = 'cirq-ionq/cirq_ionq/'
CA = 'cirq-aqt/cirq_aqt/'

SV = CC + 'sim/state_vector_simulation_state.py'
SB = CC + 'sim/simulator_base.py'
CGATES = CC + 'ops/common_gates.py'

HAND = {
    'C01': [
        ('sweep-prefix-admits-parameterized-ops', 'break', SB, 'SimulatorBase.simulate_sweep_iter',
         r' and not protocols\.is_parameterized\(op\)', '', 'C01.b'),
        ('replay-shares-the-state', 'break', SB, 'SimulatorBase._run',
         r'sim_state\.copy\(deep_copy_buffers=False\) if i < repetitions - 1 else sim_state', 'sim_state', 'C01.c'),
        ('mixture-result-left-in-buffer', 'break', SV, '_BufferedStateVector.apply_mixture',
         r'self\._swap_target_tensor_for\(self\._buffer\)', 'pass', 'C01.a'),
        ('swap-forgets-to-recycle-buffer', 'break', SV, '_BufferedStateVector._swap_target_tensor_for',
         r'if new_target_tensor is self\._buffer:\n\s+self\._buffer = self\._state_vector\n\s+', '', 'C01.a'),
        ('x-kernel-writes-both-halves-from-one', 'break', CGATES, 'XPowGate._apply_unitary_',
         r'args\.available_buffer\[one\] = args\.target_tensor\[zero\]', 'args.available_buffer[one] = args.target_tensor[one]', 'C01.k'),
        ('sweep-prefix-as-early-return', 'twin', SB, 'SimulatorBase.simulate_sweep_iter',
         r'return self\._can_be_in_run_prefix\(op\) and not protocols\.is_parameterized\(op\)',
         'if protocols.is_parameterized(op):\n                return False\n            return self._can_be_in_run_prefix(op)', None),
    ],
    'C13': [
        ('cx-sign-term-not-negated', 'break', CC + 'qis/clifford_tableau.py', 'CliffordTableau.apply_cx',
         r'\(~\(self\.xs\[:, target_axis\] \^ self\.zs\[:, control_axis\]\)\)', '(self.xs[:, target_axis] ^ self.zs[:, control_axis])', 'C13.a'),
        ('cx-x-propagates-backwards', 'break', CC + 'qis/clifford_tableau.py', 'CliffordTableau.apply_cx',
         r'self\.xs\[:, target_axis\] \^= self\.xs\[:, control_axis\]', 'self.xs[:, control_axis] ^= self.xs[:, target_axis]', 'C13.a'),
        ('rowsum-g-sign-flipped', 'break', CC + 'qis/clifford_tableau.py', 'CliffordTableau._rowsum',
         r'return int\(z2\) - int\(x2\)', 'return int(x2) - int(z2)', 'C13.b'),
        ('dispatcher-y-calls-x-rule', 'break', CC + 'sim/clifford/stabilizer_simulation_state.py', 'StabilizerSimulationState._strat_apply_gate',
         r'self\._state\.apply_y\(', 'self._state.apply_x(', 'C13.c'),
        ('dispatcher-cx-axes-swapped', 'break', CC + 'sim/clifford/stabilizer_simulation_state.py', 'StabilizerSimulationState._strat_apply_gate',
         r'apply_cx\(axes\[0\], axes\[1\]', 'apply_cx(axes[1], axes[0]', 'C13.c'),
        ('swap-middle-cx-loses-exponent', 'break', CC + 'sim/clifford/stabilizer_simulation_state.py', 'StabilizerSimulationState._swap',
         r'apply_cx\(target_axis, control_axis, exponent, global_shift\)', 'apply_cx(target_axis, control_axis)', 'C13.c'),
        ('cx-early-return-as-guard', 'twin', CC + 'qis/clifford_tableau.py', 'CliffordTableau.apply_cx',
         r'if exponent % 2 == 0:\n\s+return\n', 'if not exponent % 2:\n            return None\n', None),
    ],
    'C14': [
        ('third-pauli-wrong-sign', 'break', CC + 'ops/pauli_gates.py', 'Pauli.third',
         r'\(-self\._index - second\._index\) % 3', '(self._index - second._index) % 3', 'C14.a'),
        ('relative-index-reversed', 'break', CC + 'ops/pauli_gates.py', 'Pauli.relative_index',
         r'self\._index - second\._index \+ 1', 'second._index - self._index + 1', 'C14.a'),
        ('dps-interpretation-drops-coefficient', 'break', CC + 'ops/dense_pauli_string.py', '_try_interpret_as_dps',
         r', coefficient=ps\.coefficient', '', 'C14.i'),
        ('pauli-shortcut-ignores-global-shift', 'break', CC + 'ops/pauli_string.py', '_try_interpret_as_pauli_string',
         r'shift = op\.gate\.global_shift', 'shift = 0', 'C14.j'),
        ('phasor-parity-over-identity-qubits', 'break', CC + 'ops/pauli_string_phasor.py', 'PauliStringPhasorGate._decompose_',
         r'xor_nonlocal_decompose\(support, any_qubit\)', 'xor_nonlocal_decompose(qubits, any_qubit)', 'C14.k'),
        ('phasor-rotation-on-wrong-eigenspace', 'break', CC + 'ops/pauli_string_phasor.py', 'PauliStringPhasorGate._decompose_',
         r'pauli_gates\.Z\(any_qubit\) \*\* self\.exponent_neg', 'pauli_gates.Z(any_qubit) ** self.exponent_pos', 'C14.k'),
        ('lineardict-isub-default-tolerance', 'break', CC + 'value/linear_dict.py', 'LinearDict.__isub__',
         r'self\.clean\(atol=0\)', 'self.clean()', 'C14.g'),
        ('inplace-conjugation-keeps-old-sign', 'break', CC + 'ops/pauli_string.py', 'MutablePauliString.inplace_before',
         r'self\.coefficient = conjugated\.coefficient', 'pass', 'C14.f'),
        ('frozen-drops-coefficient', 'break', CC + 'ops/pauli_string.py', 'MutablePauliString.frozen',
         r'coefficient=self\.coefficient,\s*', '', 'C14.i'),
        ('phasor-support-by-loop', 'twin', CC + 'ops/pauli_string_phasor.py', 'PauliStringPhasorGate._decompose_',
         r'support = \[q for q, p in zip\(qubits, self\.dense_pauli_string\.pauli_mask\) if p\]',
         'support = []\n        for q, p in zip(qubits, self.dense_pauli_string.pauli_mask):\n            if p != 0:\n                support.append(q)', None),
        ('eigen-map-z-swapped', 'break', CC + 'ops/pauli_interaction_gate.py', None,
         r'pauli_gates\.Z: \(np\.diag\(\[1, 0\]\), np\.diag\(\[0, 1\]\)\)', 'pauli_gates.Z: (np.diag([0, 1]), np.diag([1, 0]))', 'C14.c'),
    ],
    'C18': [
        ('run-drops-repetitions', 'break', CC + 'work/sampler.py', 'Sampler.run',
         r'self\.run_sweep\(program, param_resolver, repetitions\)', 'self.run_sweep(program, param_resolver)', 'C18.a'),
        ('async-bridge-drops-params', 'break', CC + 'work/sampler.py', 'Sampler._run_sweep_async_impl',
         r'params=params', 'params=None', 'C18.a'),
        ('batch-pairs-programs-with-wrong-list', 'break', CC + 'work/sampler.py', 'Sampler.run_batch_async',
         r'zip\(programs, params_list, repetitions\)', 'zip(programs, programs, repetitions)', 'C18.a'),
        ('json-binary-flag-hardwired', 'break', CC + 'study/result.py', 'ResultDict._json_dict_',
         r"'binary': binary", "'binary': True", 'C18.b'),
        ('json-shape-field-dropped', 'break', CC + 'study/result.py', 'ResultDict._json_dict_',
         r"\n\s+'shape': digits\.shape,", '', 'C18.b'),
        ('zeros-sampler-ignores-repetitions', 'break', CC + 'work/zeros_sampler.py', 'ZerosSampler.run_sweep',
         r'np\.zeros\(\(repetitions, ', 'np.zeros((1, ', 'C18.c'),
        ('records-instance-axis-appended-last', 'break', CC + 'study/result.py', 'ResultDict.records',
         r'data\[:, np\.newaxis, :\]', 'data[:, :, np.newaxis]', 'C18.g'),
        ('results-added-along-instances', 'break', CC + 'study/result.py', 'Result.__add__',
         r'axis=0\)', 'axis=1)', 'C18.g'),
        ('measurements-view-without-instance-guard', 'break', CC + 'study/result.py', 'ResultDict.measurements',
         r'if instances != 1:\n\s+raise ValueError\([^\n]*\n', 'pass\n', 'C18.g'),
        ('padding-transposed', 'break', CC + 'sim/simulator_base.py', 'SimulatorBase._run',
         r'np\.zeros\(\(len\(results\), largest, ', 'np.zeros((largest, len(results), ', 'C18.g'),
        ('histogram-batches-overwrite', 'break', CC + 'study/result.py', 'Result._vectorized_histogram',
         r'c\.update\(batch_dict\)', 'c = collections.Counter(batch_dict)', 'C18.f'),
        ('digits-fold-little-endian', 'break', CC + 'value/digits.py', 'big_endian_digits_to_int',
         r'for d, b in zip\(digits, base\):', 'for d, b in zip(reversed(digits), reversed(base)):', 'C18.e'),
        ('digits-fold-raw-numpy-operand', 'break', CC + 'value/digits.py', 'big_endian_digits_to_int',
         r'result \+= int\(d\)', 'result += d', 'C18.d'),
        ('int-to-digits-forgets-reverse', 'break', CC + 'value/digits.py', 'big_endian_int_to_digits',
         r'\n\s+result\.reverse\(\)', '', 'C18.e'),
        ('repeated-keys-via-transpose', 'twin', CC + 'sim/simulator.py', 'StepResult.sample_measurement_ops',
         r'np\.array\(v\)\.swapaxes\(0, 1\)', 'np.transpose(np.array(v), (1, 0, 2))', None),
        ('run-via-named-local', 'twin', CC + 'work/sampler.py', 'Sampler.run',
         r'return self\.run_sweep\(program, param_resolver, repetitions\)\[0\]',
         'all_results = self.run_sweep(program, params=param_resolver, repetitions=repetitions)\n        return all_results[0]', None),
    ],
}
