#!/usr/bin/env python3
"""Regenerates /verif/MANIFEST.json from the table below (kept in one place so the
manifest is always valid and always matches the property modules that exist)."""
import json
import os

HERE = os.path.dirname(os.path.abspath(__file__))
VERIF = os.path.dirname(HERE)

# id -> (technique, clauses decided, clauses not decided, design_ref)
CLAIMS = {}
NOT_APPLICABLE = {}


def claim(pid, technique, decided, not_decided):
    CLAIMS[pid] = (technique, decided, not_decided)


def na(pid, reason):
    NOT_APPLICABLE[pid] = reason


def more(pid, technique, decided, not_decided=None):
    """rules added after the first version of a claim"""
    t, d, n = CLAIMS[pid]
    CLAIMS[pid] = (t + '; ' + technique, d + '; ' + decided, not_decided if not_decided is not None else n)


exec(open(os.path.join(HERE, 'claims.py')).read())

props = [json.loads(l)['id'] for l in open(os.path.join(VERIF, 'properties.jsonl'))]
checks = []
for pid in props:
    if pid in CLAIMS and os.path.exists(os.path.join(HERE, 'props', pid.lower() + '.py')):
        tech, dec, nd = CLAIMS[pid]
        checks.append({
            'property_id': pid,
            'quick_cmd': f'/venv/bin/python /verif/sa/check.py {pid} --tier quick',
            'thorough_cmd': f'/venv/bin/python /verif/sa/check.py {pid} --tier thorough',
            'evidence_file': f'/verif/evidence/{pid}.json',
            'replay_cmd_template': '/venv/bin/python /verif/sa/replay.py {path}',
            'engine': 'sa',
            'level_claimed': {
                'category': 'other',
                'text': 'static necessary-condition analysis of the working-tree source (nothing executed): decides '
                        + dec + '. Does not decide: ' + nd + '. A violation of a decided clause breaks the '
                        'property for some input; silence does not establish the behavioural property.',
                'design_ref': f'DESIGN.md section 3, {pid}',
            },
            'level_note': 'trusted base: CPython ast, the sa engine (resolver, path walker, field/table extractors, '
                          'finite-domain interpreter), reference tables written in the checker, numpy on extracted '
                          'constants. Name-based resolution (no type checker offline); unresolved constructs are '
                          'counted, never passed silently; instance floors turn a vanished anchor into exit 2.',
            'technique': tech,
        })
    elif pid not in NOT_APPLICABLE:
        NOT_APPLICABLE[pid] = 'no sound static rule built for this property in this framework (see DESIGN.md)'

manifest = {
    'version': 1,
    'setup_cmd': '/venv/bin/python /verif/sa/selftest.py',
    'hooks': {
        'guard': 'CIRQ_VERIF',
        'enable': 'none needed: static analysis reads the source, no instrumentation is compiled in',
        'baseline_off_cmd': 'cd /repo && /venv/bin/python -m pytest -ra -q -p no:cacheprovider --timeout=900 '
                            '--continue-on-collection-errors',
        'source_commits': [],
        'add_only': True,
    },
    'engines': [{
        'name': 'sa', 'path': '/verif/sa', 'serves_properties': [c['property_id'] for c in checks],
        'kind_free_text': 'repository-specific static analyser over the Python ast: module/class/MRO resolver, '
                          'syntax-directed path walker (typestate / must-pass-through), field-set and '
                          'writer/reader table extractors, constant folder, finite-domain transfer-function '
                          'extraction; never imports or runs repository code',
    }],
    'checks': checks,
    'not_applicable': [{'property_id': p, 'reason': r} for p, r in sorted(NOT_APPLICABLE.items())
                       if p not in [c['property_id'] for c in checks]],
    'notes': 'Family: static analysis only. exit 0 = all rule instances hold (KNOWN-FINDING lines for listed '
             'findings); exit 1 = VIOLATION; exit 2 = ANALYSIS-ERROR. Genuine upstream defects found are '
             'repaired by fix: commits in /repo and recorded in /verif/known_findings.json.',
}
with open(os.path.join(VERIF, 'MANIFEST.json'), 'w') as f:
    json.dump(manifest, f, indent=1)
print('MANIFEST.json:', len(checks), 'checks,', len(manifest['not_applicable']), 'not applicable')
