"""Loader, module/class index and name resolver over /repo's working tree.

Pure `ast`; nothing from the repository is imported or executed.
"""
from __future__ import annotations

import ast
import os
from typing import Dict, Iterable, Iterator, List, Optional, Tuple

REPO = os.environ.get('SA_REPO', '/repo')

PACKAGES = [
    ('cirq-core', 'cirq'),
    ('cirq-google', 'cirq_google'),
    ('cirq-ionq', 'cirq_ionq'),
    ('cirq-aqt', 'cirq_aqt'),
    ('cirq-pasqal', 'cirq_pasqal'),
]


class AnalysisError(Exception):
    """The analysis could not be carried out (anchor vanished, floor not met...)."""


class Module:
    def __init__(self, name: str, rel: str, src: str, is_pkg: bool):
        self.name = name
        self.rel = rel  # path relative to repo root
        self.src = src
        self.is_pkg = is_pkg
        self.tree = ast.parse(src, filename=rel)
        self.lines = src.splitlines()
        self.imports: Dict[str, Tuple[str, Optional[str]]] = {}  # local -> (module, name|None)
        self.defs: Dict[str, ast.AST] = {}  # top-level name -> node (ClassDef/FunctionDef/Assign value)
        self._parents: Optional[Dict[ast.AST, ast.AST]] = None

    @property
    def package(self) -> str:
        return self.name if self.is_pkg else self.name.rpartition('.')[0]

    def parents(self) -> Dict[ast.AST, ast.AST]:
        if self._parents is None:
            p: Dict[ast.AST, ast.AST] = {}
            for n in ast.walk(self.tree):
                for c in ast.iter_child_nodes(n):
                    p[c] = n
            self._parents = p
        return self._parents

    def seg(self, node: ast.AST) -> str:
        try:
            return ast.get_source_segment(self.src, node) or ast.unparse(node)
        except Exception:
            return ast.unparse(node)


class ClassInfo:
    def __init__(self, mod: Module, node: ast.ClassDef, qual: str):
        self.mod = mod
        self.node = node
        self.name = node.name
        self.qual = qual  # module.Class
        self.methods: Dict[str, ast.FunctionDef] = {}
        self.assigns: Dict[str, ast.AST] = {}
        self.base_infos: List['ClassInfo'] = []
        self.unresolved_bases: List[str] = []
        self._mro: Optional[List['ClassInfo']] = None
        for st in node.body:
            if isinstance(st, (ast.FunctionDef, ast.AsyncFunctionDef)):
                # keep the last definition (setters come after getters; prefer the getter)
                if st.name in self.methods and any(
                    isinstance(d, ast.Attribute) and d.attr in ('setter', 'deleter')
                    for d in st.decorator_list
                ):
                    continue
                self.methods[st.name] = st
            elif isinstance(st, ast.Assign):
                for t in st.targets:
                    if isinstance(t, ast.Name):
                        self.assigns[t.id] = st.value
            elif isinstance(st, ast.AnnAssign) and isinstance(st.target, ast.Name):
                self.assigns[st.target.id] = st.value if st.value is not None else st.annotation

    def decorator_names(self) -> List[str]:
        out = []
        for d in self.node.decorator_list:
            out.append(dotted(d.func if isinstance(d, ast.Call) else d) or '?')
        return out

    def __repr__(self):
        return f'<Class {self.qual}>'


class FuncInfo:
    def __init__(self, mod: Module, node: ast.AST, qual: str, cls: Optional[ClassInfo] = None):
        self.mod = mod
        self.node = node
        self.qual = qual
        self.cls = cls

    @property
    def name(self):
        return self.node.name

    def __repr__(self):
        return f'<Func {self.qual}>'


def dotted(node: ast.AST) -> Optional[str]:
    """`a.b.c` for Name/Attribute chains, else None."""
    parts = []
    while isinstance(node, ast.Attribute):
        parts.append(node.attr)
        node = node.value
    if isinstance(node, ast.Name):
        parts.append(node.id)
        return '.'.join(reversed(parts))
    return None


def chain(node: ast.AST) -> Optional[List[str]]:
    d = dotted(node)
    return d.split('.') if d else None


def is_self_attr(node: ast.AST, name: Optional[str] = None, selfname: str = 'self') -> bool:
    return (
        isinstance(node, ast.Attribute)
        and isinstance(node.value, ast.Name)
        and node.value.id == selfname
        and (name is None or node.attr == name)
    )


def walk_local(node: ast.AST, include_nested_funcs: bool = True) -> Iterator[ast.AST]:
    """ast.walk that can stop at nested function/class definitions."""
    todo = [node]
    first = True
    while todo:
        n = todo.pop()
        if (
            not first
            and not include_nested_funcs
            and isinstance(n, (ast.FunctionDef, ast.AsyncFunctionDef, ast.Lambda, ast.ClassDef))
        ):
            continue
        first = False
        yield n
        todo.extend(ast.iter_child_nodes(n))


def calls_in(node: ast.AST, nested: bool = True) -> Iterator[ast.Call]:
    for n in walk_local(node, nested):
        if isinstance(n, ast.Call):
            yield n


def call_name(c: ast.Call) -> str:
    """Last component of the callee (`protocols.unitary(x)` -> `unitary`)."""
    f = c.func
    if isinstance(f, ast.Attribute):
        return f.attr
    if isinstance(f, ast.Name):
        return f.id
    return ''


def kwarg(c: ast.Call, name: str) -> Optional[ast.AST]:
    for k in c.keywords:
        if k.arg == name:
            return k.value
    return None


def func_params(fn: ast.AST) -> List[str]:
    a = fn.args
    return [x.arg for x in a.posonlyargs + a.args + a.kwonlyargs]


def func_param_defaults(fn: ast.AST) -> Dict[str, Optional[ast.AST]]:
    """param -> default node (None when required). *args/**kwargs excluded."""
    a = fn.args
    pos = a.posonlyargs + a.args
    out: Dict[str, Optional[ast.AST]] = {}
    nd = len(a.defaults)
    for i, p in enumerate(pos):
        j = i - (len(pos) - nd)
        out[p.arg] = a.defaults[j] if j >= 0 else None
    for p, d in zip(a.kwonlyargs, a.kw_defaults):
        out[p.arg] = d
    return out


def const(node: ast.AST):
    """Python value of a literal constant expression (numbers, strings, unary minus,
    tuples of those), else raises ValueError."""
    if isinstance(node, ast.Constant):
        return node.value
    if isinstance(node, ast.UnaryOp) and isinstance(node.op, ast.USub):
        return -const(node.operand)
    if isinstance(node, ast.UnaryOp) and isinstance(node.op, ast.UAdd):
        return +const(node.operand)
    if isinstance(node, ast.Tuple):
        return tuple(const(e) for e in node.elts)
    if isinstance(node, ast.BinOp):
        l, r = const(node.left), const(node.right)
        op = node.op
        if isinstance(op, ast.Add):
            return l + r
        if isinstance(op, ast.Sub):
            return l - r
        if isinstance(op, ast.Mult):
            return l * r
        if isinstance(op, ast.Div):
            return l / r
        if isinstance(op, ast.Pow):
            return l**r
    raise ValueError(ast.dump(node)[:80])


class Repo:
    def __init__(self, root: str = None, overlay: Optional[Dict[str, str]] = None, base: 'Repo' = None):
        self.root = root or REPO
        self.overlay = overlay or {}
        self._base = base
        self.modules: Dict[str, Module] = {}
        self.by_rel: Dict[str, Module] = {}
        self.classes: Dict[str, ClassInfo] = {}
        self.classes_by_name: Dict[str, List[ClassInfo]] = {}
        self.funcs: Dict[str, FuncInfo] = {}
        self.parse_errors: List[str] = []
        self._load()
        self._index()

    # ---------------------------------------------------------------- loading
    def _load(self):
        for top, pkg in PACKAGES:
            base = os.path.join(self.root, top, pkg)
            if not os.path.isdir(base):
                raise AnalysisError(f'package directory missing: {top}/{pkg}')
            for dp, dns, fns in os.walk(base):
                dns[:] = sorted(
                    d for d in dns if d not in ('__pycache__', 'json_test_data', 'node_modules')
                )
                for fn in sorted(fns):
                    if not fn.endswith('.py') or fn.endswith('_test.py') or fn == 'conftest.py':
                        continue
                    full = os.path.join(dp, fn)
                    rel = os.path.relpath(full, self.root)
                    if rel in self.overlay:
                        continue
                    if self._base is not None and rel in self._base.by_rel and rel not in self._base.overlay:
                        m = self._base.by_rel[rel]
                        self.modules[m.name] = m
                        self.by_rel[rel] = m
                        continue
                    with open(full, encoding='utf-8') as f:
                        src = f.read()
                    self._add(rel, src, top)
        for rel, src in self.overlay.items():
            top = rel.split('/')[0]
            if rel.endswith('.py'):
                self._add(rel, src, top)

    def _add(self, rel: str, src: str, top: str):
        inner = rel[len(top) + 1 :]
        parts = inner[:-3].split('/')
        is_pkg = parts[-1] == '__init__'
        if is_pkg:
            parts = parts[:-1]
        name = '.'.join(parts)
        try:
            m = Module(name, rel, src, is_pkg)
        except SyntaxError as e:
            raise AnalysisError(f'cannot parse {rel}: {e}')
        self.modules[name] = m
        self.by_rel[rel] = m

    def read_text(self, rel: str) -> str:
        if rel in self.overlay:
            return self.overlay[rel]
        with open(os.path.join(self.root, rel), encoding='utf-8') as f:
            return f.read()

    def exists(self, rel: str) -> bool:
        return rel in self.overlay or os.path.exists(os.path.join(self.root, rel))

    # --------------------------------------------------------------- indexing
    def _index(self):
        for m in self.modules.values():
            self._index_module(m)
        for ci in list(self.classes.values()):
            for b in ci.node.bases:
                if isinstance(b, ast.Subscript):  # Generic[...] etc
                    b = b.value
                d = dotted(b)
                r = self.resolve(ci.mod, d) if d else None
                if isinstance(r, ClassInfo):
                    ci.base_infos.append(r)
                else:
                    ci.unresolved_bases.append(d or ast.unparse(b))

    def _index_module(self, m: Module):
        def scan(body, in_try=False):
            for st in body:
                if isinstance(st, ast.Import):
                    for a in st.names:
                        if a.asname:
                            m.imports[a.asname] = (a.name, None)
                        else:
                            m.imports[a.name.split('.')[0]] = (a.name.split('.')[0], None)
                elif isinstance(st, ast.ImportFrom):
                    base = st.module or ''
                    if st.level:
                        pk = m.package.split('.')
                        pk = pk[: len(pk) - (st.level - 1)]
                        base = '.'.join(pk + ([st.module] if st.module else []))
                    for a in st.names:
                        m.imports[a.asname or a.name] = (base, a.name)
                elif isinstance(st, (ast.ClassDef, ast.FunctionDef, ast.AsyncFunctionDef)):
                    m.defs[st.name] = st
                elif isinstance(st, ast.Assign):
                    for t in st.targets:
                        if isinstance(t, ast.Name):
                            m.defs[t.id] = st.value
                elif isinstance(st, ast.AnnAssign) and isinstance(st.target, ast.Name):
                    if st.value is not None:
                        m.defs[st.target.id] = st.value
                elif isinstance(st, (ast.If, ast.With, ast.Try)):
                    scan(st.body)
                    for h in getattr(st, 'handlers', []):
                        scan(h.body)
                    scan(getattr(st, 'orelse', []))
                    scan(getattr(st, 'finalbody', []))

        scan(m.tree.body)
        for name, node in m.defs.items():
            if isinstance(node, ast.ClassDef):
                self._add_class(m, node, f'{m.name}.{name}')
            elif isinstance(node, (ast.FunctionDef, ast.AsyncFunctionDef)):
                self.funcs[f'{m.name}.{name}'] = FuncInfo(m, node, f'{m.name}.{name}')

    def _add_class(self, m: Module, node: ast.ClassDef, qual: str):
        ci = ClassInfo(m, node, qual)
        self.classes[qual] = ci
        self.classes_by_name.setdefault(node.name, []).append(ci)
        for st in node.body:
            if isinstance(st, ast.ClassDef):
                self._add_class(m, st, f'{qual}.{st.name}')

    # -------------------------------------------------------------- resolving
    def resolve_in_module(self, modname: str, name: str, _seen=None):
        """What does `name` mean as an attribute of module `modname`?"""
        _seen = _seen or set()
        if (modname, name) in _seen:
            return None
        _seen.add((modname, name))
        m = self.modules.get(modname)
        if m is None:
            return None
        if name in m.defs:
            node = m.defs[name]
            if isinstance(node, ast.ClassDef):
                return self.classes.get(f'{modname}.{name}')
            if isinstance(node, (ast.FunctionDef, ast.AsyncFunctionDef)):
                return self.funcs.get(f'{modname}.{name}')
            # alias assignment  X = Y  /  X = mod.Y
            d = dotted(node)
            if d:
                r = self.resolve(m, d, _seen)
                if r is not None:
                    return r
            return ('var', m, name, node)
        if name in m.imports:
            src, nm = m.imports[name]
            if nm is None:
                return self.modules.get(src)
            sub = f'{src}.{nm}'
            if sub in self.modules and (src not in self.modules or nm not in self.modules[src].defs):
                return self.modules[sub]
            return self.resolve_in_module(src, nm, _seen)
        sub = f'{modname}.{name}'
        if sub in self.modules:
            return self.modules[sub]
        return None

    def resolve(self, m: Module, dotted_name: str, _seen=None):
        """Resolve `a.b.c` as written inside module `m` (module scope)."""
        if not dotted_name:
            return None
        parts = dotted_name.split('.')
        cur = self.resolve_in_module(m.name, parts[0], _seen)
        if cur is None and parts[0] in self.modules:
            cur = self.modules[parts[0]]
        for p in parts[1:]:
            if isinstance(cur, Module):
                cur = self.resolve_in_module(cur.name, p)
            elif isinstance(cur, ClassInfo):
                nested = self.classes.get(f'{cur.qual}.{p}')
                if nested:
                    cur = nested
                else:
                    r = self.find_method(cur, p)
                    cur = FuncInfo(r[0].mod, r[1], f'{r[0].qual}.{p}', r[0]) if r else None
            else:
                return None
            if cur is None:
                return None
        return cur

    def local_env(self, fn: ast.AST):
        """Function-scope imports and nested defs: name -> ('import', module, name|None) | ('def', node)."""
        env = {}
        for st in ast.walk(fn):
            if isinstance(st, ast.Import):
                for a in st.names:
                    if a.asname:
                        env[a.asname] = ('import', a.name, None)
                    else:
                        env[a.name.split('.')[0]] = ('import', a.name.split('.')[0], None)
            elif isinstance(st, ast.ImportFrom) and not st.level:
                for a in st.names:
                    env[a.asname or a.name] = ('import', st.module, a.name)
            elif isinstance(st, (ast.FunctionDef, ast.ClassDef)) and st is not fn:
                env.setdefault(st.name, ('def', st))
        return env

    def resolve_in_func(self, m: Module, fn: ast.AST, dotted_name: str, env=None):
        """Resolve a dotted name as written inside function `fn` of module `m`."""
        env = env if env is not None else self.local_env(fn)
        parts = dotted_name.split('.')
        if parts[0] in env:
            e = env[parts[0]]
            if e[0] == 'def':
                return ('localdef', e[1]) if len(parts) == 1 else None
            _, mod, nm = e
            if nm is None:
                cur = self.modules.get(mod)
                if cur is None:
                    return ('external', dotted_name)
            else:
                cur = self.resolve_in_module(mod, nm) if mod in self.modules else None
                if cur is None:
                    sub = f'{mod}.{nm}'
                    cur = self.modules.get(sub)
                if cur is None:
                    return ('external', dotted_name)
            for p in parts[1:]:
                if isinstance(cur, Module):
                    cur = self.resolve_in_module(cur.name, p)
                elif isinstance(cur, ClassInfo):
                    nested = self.classes.get(f'{cur.qual}.{p}')
                    if nested:
                        cur = nested
                    else:
                        r = self.find_method(cur, p)
                        cur = FuncInfo(r[0].mod, r[1], f'{r[0].qual}.{p}', r[0]) if r else None
                else:
                    return None
                if cur is None:
                    return None
            return cur
        r = self.resolve(m, dotted_name)
        if r is None and parts[0] in m.imports and m.imports[parts[0]][0].split('.')[0] not in self.modules:
            return ('external', dotted_name)
        return r

    def resolve_class(self, m: Module, node_or_name) -> Optional[ClassInfo]:
        d = node_or_name if isinstance(node_or_name, str) else dotted(node_or_name)
        r = self.resolve(m, d) if d else None
        return r if isinstance(r, ClassInfo) else None

    # -------------------------------------------------------------------- MRO
    def mro(self, ci: ClassInfo) -> List[ClassInfo]:
        if ci._mro is not None:
            return ci._mro
        ci._mro = [ci]  # recursion guard

        def merge(seqs):
            res = []
            seqs = [list(s) for s in seqs if s]
            while seqs:
                for s in seqs:
                    h = s[0]
                    if not any(h in t[1:] for t in seqs):
                        break
                else:
                    # inconsistent: fall back to DFS order
                    flat = []
                    for s in seqs:
                        for x in s:
                            if x not in flat and x not in res:
                                flat.append(x)
                    return res + flat
                res.append(h)
                seqs = [[x for x in s if x is not h] for s in seqs]
                seqs = [s for s in seqs if s]
            return res

        out = [ci] + merge([self.mro(b) for b in ci.base_infos] + [list(ci.base_infos)])
        ci._mro = out
        return out

    def find_method(self, ci: ClassInfo, name: str) -> Optional[Tuple[ClassInfo, ast.FunctionDef]]:
        for c in self.mro(ci):
            if name in c.methods:
                return c, c.methods[name]
        return None

    def find_class_attr(self, ci: ClassInfo, name: str):
        for c in self.mro(ci):
            if name in c.assigns:
                return c, c.assigns[name]
        return None

    def is_subclass(self, ci: ClassInfo, other: ClassInfo) -> bool:
        return other in self.mro(ci)

    def subclasses(self, base: ClassInfo) -> List[ClassInfo]:
        return [c for c in self.classes.values() if c is not base and base in self.mro(c)]

    # ------------------------------------------------------------ conveniences
    def module(self, rel: str) -> Module:
        m = self.by_rel.get(rel)
        if m is None:
            raise AnalysisError(f'anchor file missing: {rel}')
        return m

    def cls(self, qual_or_name: str) -> ClassInfo:
        if qual_or_name in self.classes:
            return self.classes[qual_or_name]
        cands = self.classes_by_name.get(qual_or_name, [])
        if len(cands) == 1:
            return cands[0]
        raise AnalysisError(f'anchor class missing or ambiguous: {qual_or_name} ({len(cands)})')

    def method(self, cls_qual: str, name: str, inherited: bool = False) -> ast.FunctionDef:
        ci = self.cls(cls_qual)
        if name in ci.methods:
            return ci.methods[name]
        if inherited:
            r = self.find_method(ci, name)
            if r:
                return r[1]
        raise AnalysisError(f'anchor method missing: {cls_qual}.{name}')

    def func(self, qual: str) -> FuncInfo:
        f = self.funcs.get(qual)
        if f is None:
            raise AnalysisError(f'anchor function missing: {qual}')
        return f

    def all_functions(self) -> Iterator[Tuple[Module, Optional[ClassInfo], ast.AST]]:
        for ci in self.classes.values():
            for fn in ci.methods.values():
                yield ci.mod, ci, fn
        for fi in self.funcs.values():
            yield fi.mod, None, fi.node

    # ---- property alias map: `exponent` -> `_exponent` when the @property returns self._x
    def property_alias(self, ci: ClassInfo, name: str) -> Optional[str]:
        r = self.find_method(ci, name)
        if not r:
            return None
        fn = r[1]
        decs = [dotted(d) or '' for d in fn.decorator_list]
        if not any(d in ('property', 'cached_property', 'functools.cached_property') or d.endswith('.cached_property') for d in decs):
            return None
        body = [s for s in fn.body if not (isinstance(s, ast.Expr) and isinstance(s.value, ast.Constant))]
        if len(body) == 1 and isinstance(body[0], ast.Return) and body[0].value is not None:
            v = body[0].value
            while isinstance(v, ast.Attribute) and not is_self_attr(v):
                v = v.value
            if is_self_attr(v):
                return v.attr
        return None


def stmt_key(node: ast.AST) -> str:
    """Normalised statement text (position independent) used to key findings."""
    return ' '.join(ast.unparse(node).split())
