"""Special-case chain extraction: ordered if/elif (and match/case) chains."""
from __future__ import annotations

import ast
from typing import List, Optional, Tuple


def if_chain(node: ast.If) -> List[Tuple[Optional[ast.AST], List[ast.stmt]]]:
    """[(test, body), ..., (None, final else body)] of an if/elif/else chain."""
    out = []
    cur = node
    while True:
        out.append((cur.test, cur.body))
        if len(cur.orelse) == 1 and isinstance(cur.orelse[0], ast.If):
            cur = cur.orelse[0]
            continue
        out.append((None, cur.orelse))
        return out


def longest_chain(fn: ast.AST, pred) -> Optional[ast.If]:
    """The `if` statement in fn starting the longest chain whose first test satisfies pred."""
    best = None
    best_len = 0
    inner = set()
    for n in ast.walk(fn):
        if isinstance(n, ast.If):
            if len(n.orelse) == 1 and isinstance(n.orelse[0], ast.If):
                inner.add(n.orelse[0])
    for n in ast.walk(fn):
        if isinstance(n, ast.If) and n not in inner and pred(n.test):
            l = len(if_chain(n))
            if l > best_len:
                best, best_len = n, l
    return best


def isinstance_classes(test: ast.AST, var: Optional[str] = None) -> Optional[List[ast.AST]]:
    """For `isinstance(var, X)` / `isinstance(var, (X, Y))` return [X, Y] nodes (var None: any plain name as subject)."""
    if isinstance(test, ast.Call) and isinstance(test.func, ast.Name) and test.func.id == 'isinstance' and len(test.args) == 2 \
            and isinstance(test.args[0], ast.Name) and (var is None or test.args[0].id == var):
        t = test.args[1]
        return list(t.elts) if isinstance(t, ast.Tuple) else [t]
    return None


def eq_const(test: ast.AST, var: Optional[str] = None):
    """For `var == 'c'` return 'c' (else None); var None: any plain name as subject."""
    if isinstance(test, ast.Compare) and len(test.ops) == 1 and isinstance(test.ops[0], ast.Eq) and \
            isinstance(test.left, ast.Name) and (var is None or test.left.id == var) and isinstance(test.comparators[0], ast.Constant):
        return test.comparators[0].value
    return None


def attr_paths(node: ast.AST, root: str) -> List[Tuple[Tuple[str, ...], ast.AST]]:
    """All maximal attribute/subscript-constant chains rooted at Name `root` inside node."""
    out = []
    seen = set()

    def path_of(n):
        parts = []
        cur = n
        while True:
            if isinstance(cur, ast.Attribute):
                parts.append(cur.attr)
                cur = cur.value
            elif isinstance(cur, ast.Subscript) and isinstance(cur.slice, ast.Constant):
                parts.append(f'[{cur.slice.value!r}]')
                cur = cur.value
            elif isinstance(cur, ast.Call) and isinstance(cur.func, ast.Attribute) and cur.func.attr in ('add', 'get') :
                # msg.x.add() / d.get('k', ...) continue through the receiver
                if cur.func.attr == 'get' and cur.args and isinstance(cur.args[0], ast.Constant):
                    parts.append(f'[{cur.args[0].value!r}]')
                cur = cur.func.value
            else:
                break
        if isinstance(cur, ast.Name) and cur.id == root:
            return tuple(reversed(parts))
        return None

    for n in ast.walk(node):
        if isinstance(n, (ast.Attribute, ast.Subscript)) and id(n) not in seen:
            p = path_of(n)
            if p:
                # mark sub-nodes as seen so only maximal chains are reported
                cur = n
                while isinstance(cur, (ast.Attribute, ast.Subscript, ast.Call)):
                    seen.add(id(cur))
                    cur = cur.value if not isinstance(cur, ast.Call) else cur.func
                out.append((p, n))
    return out


def test_subject(test: ast.AST) -> Optional[str]:
    """the plain name an isinstance(...) / `name == const` test is about"""
    if isinstance(test, ast.Call) and isinstance(test.func, ast.Name) and test.func.id == 'isinstance' and test.args and isinstance(test.args[0], ast.Name):
        return test.args[0].id
    if isinstance(test, ast.Compare) and isinstance(test.left, ast.Name):
        return test.left.id
    return None


def inline_aliases(stmts, root: str):
    """A deep copy of `stmts` in which a local bound once to an attribute chain rooted at `root` (pulse = operation_proto.couplerpulsegate)
    is replaced by that chain wherever it is read - so that attr_paths sees the same paths whether or not a maintainer named the sub-message."""
    import copy
    stmts = copy.deepcopy(list(stmts))
    mod = ast.Module(body=stmts, type_ignores=[])
    stores = {}
    for n in ast.walk(mod):
        if isinstance(n, ast.Name) and isinstance(n.ctx, ast.Store):
            stores[n.id] = stores.get(n.id, 0) + 1
    alias = {}
    for st in ast.walk(mod):
        if isinstance(st, ast.Assign) and len(st.targets) == 1 and isinstance(st.targets[0], ast.Name) and stores.get(st.targets[0].id) == 1:
            v = st.value
            cur = v
            ok = isinstance(cur, ast.Attribute)
            while isinstance(cur, ast.Attribute):
                cur = cur.value
            if ok and isinstance(cur, ast.Name) and (cur.id == root or cur.id in alias):
                alias[st.targets[0].id] = v

    class T(ast.NodeTransformer):
        def visit_Name(self, node):
            if isinstance(node.ctx, ast.Load) and node.id in alias:
                return self.visit(copy.deepcopy(alias[node.id]))
            return node
    out = [T().visit(s) for s in stmts]
    for s in out:
        ast.fix_missing_locations(s)
    return out
