#!/venv/bin/python
"""Entry point:  check.py <ID> [--tier quick|thorough] [--root DIR] [--out DIR]

exit 0  every rule instance held (KNOWN-FINDING lines for listed findings)
exit 1  VIOLATION property=<id> replay=<path>
exit 2  ANALYSIS-ERROR (anchor vanished, floor not met, internal error) - never a pass
"""
from __future__ import annotations

import argparse
import importlib
import os
import sys
import time
import traceback
import warnings

HERE = os.path.dirname(os.path.abspath(__file__))
sys.path.insert(0, os.path.dirname(HERE))
# never let the repository's packages be importable from the checker
sys.path[:] = [p for p in sys.path if not p.rstrip('/').startswith('/repo')]

from sa import core, report  # noqa: E402

warnings.filterwarnings('ignore')   # numpy overflow warnings raised while interpreting probe inputs are findings of the rules, not noise for the log


def run_property(pid: str, tier: str, root: str, out_dir=None, overlay=None, quiet=False, base=None):
    t0 = time.time()
    repo = core.Repo(root, overlay=overlay, base=base)
    from sa import fdx as _fdx
    _fdx.DEFAULT_REPO = repo
    _fdx._OWNERS.clear()
    mod = importlib.import_module(f'sa.props.{pid.lower()}')
    ctx = report.Ctx(pid, tier, repo)
    mod.run(ctx)
    from sa.props import general
    general.apply(ctx, pid)
    return ctx, t0, repo, mod


def main(argv=None) -> int:
    ap = argparse.ArgumentParser()
    ap.add_argument('pid')
    ap.add_argument('--tier', default=os.environ.get('VERIF_TIER', 'quick'), choices=['quick', 'thorough'])
    ap.add_argument('--root', default=os.environ.get('SA_REPO', '/repo'))
    ap.add_argument('--out', default=None)
    ap.add_argument('--no-controls', action='store_true')
    a = ap.parse_args(argv)
    seed = int(os.environ.get('VERIF_SEED', '0') or 0)
    pid = a.pid.upper()
    try:
        ctx, t0, repo, mod = run_property(pid, a.tier, a.root)
        if a.tier == 'thorough' and not a.no_controls:
            from sa import controls
            controls.run_battery(pid, ctx, repo, mod, a.root)
        code = report.finish(ctx, t0, seed, a.out)
    except core.AnalysisError as e:
        print(f'ANALYSIS-ERROR property={pid}: {e}')
        return 2
    except Exception:
        traceback.print_exc()
        print(f'ANALYSIS-ERROR property={pid}: internal error (see traceback)')
        return 2
    assert not any(m == 'cirq' or m.startswith('cirq.') or m.startswith('cirq_') for m in sys.modules), \
        'repository code was imported'
    return code


if __name__ == '__main__':
    sys.exit(main())
