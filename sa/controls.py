"""Thorough tier: the positive-control battery.

For the property under check, variants of the *current* source are built in memory (the
loader's overlay; nothing is written to /repo and no scratch copy is made) and the whole
property check is re-run on each:

* break controls - one rule instance broken (a hand-written edit located through the syntax
  tree, or one of the seeded mutations under /verif/seeded that this property's check is
  recorded to catch).  The variant must produce a violation the base run does not have
  (or abort as ANALYSIS-ERROR, which is also "not a pass").
* twins - behaviour-preserving edits (every consulted file shifted by comment lines, a
  no-op statement inserted at the head of every function the break controls touch, plus
  hand-written refactorings).  The variant must report exactly the violations of the base
  run and the same number of obligations.

A control whose anchor no longer exists in the tree under analysis is reported as stale and
skipped (the tree may legitimately have moved); a control that applies and is NOT detected,
or a twin that changes the verdict, is a defect of the checker: ANALYSIS-ERROR, exit 2.
At least one break control per property must have run.
"""
from __future__ import annotations

import ast
import glob
import json
import multiprocessing as mp
import os
import re
from typing import Dict, List, Optional, Tuple

from . import core
from .core import AnalysisError

VERIF = os.path.dirname(os.path.dirname(os.path.abspath(__file__)))


class Stale(Exception):
    pass


# --------------------------------------------------------------------------- patch application (in memory)
def parse_patch(text: str) -> Dict[str, List[Tuple[int, List[str], List[str]]]]:
    files: Dict[str, list] = {}
    cur = None
    lines = text.splitlines()
    i = 0
    while i < len(lines):
        ln = lines[i]
        if ln.startswith('+++ '):
            p = ln[4:].strip()
            cur = p[2:] if p.startswith('b/') else p
            files[cur] = []
            i += 1
            continue
        m = re.match(r'@@ -(\d+)(?:,(\d+))? \+(\d+)(?:,(\d+))? @@', ln)
        if m and cur is not None:
            start = int(m.group(1))
            old, new = [], []
            i += 1
            while i < len(lines) and not lines[i].startswith('@@') and not lines[i].startswith('diff '):
                h = lines[i]
                if h.startswith('\\'):
                    pass
                elif h.startswith('-') and not h.startswith('--- '):
                    old.append(h[1:])
                elif h.startswith('+') and not h.startswith('+++ '):
                    new.append(h[1:])
                elif h.startswith(' ') or h == '':
                    old.append(h[1:])
                    new.append(h[1:])
                else:
                    break
                i += 1
            files[cur].append((start, old, new))
            continue
        i += 1
    return files


def apply_patch(repo, text: str) -> Dict[str, str]:
    out = {}
    for rel, hunks in parse_patch(text).items():
        if not repo.exists(rel):
            raise Stale(f'{rel} missing')
        src = repo.read_text(rel).split('\n')
        shift = 0
        for start, old, new in hunks:
            # strip trailing empty context produced by splitlines on the last hunk
            guess = start - 1 + shift
            cand = sorted(range(0, len(src) - len(old) + 1), key=lambda k: abs(k - guess))
            at = next((k for k in cand if src[k:k + len(old)] == old), None)
            if at is None:
                raise Stale(f'hunk @{start} of {rel} does not match the tree')
            src[at:at + len(old)] = new
            shift += len(new) - len(old)
        out[rel] = '\n'.join(src)
    return out


# --------------------------------------------------------------------------- ast-located edits
def _find_func(repo, rel: str, qual: str):
    m = repo.by_rel.get(rel)
    if m is None:
        raise Stale(f'{rel} not loaded')
    parts = qual.split('.')
    body = m.tree.body
    node = None
    for p in parts:
        cands = [n for n in body if isinstance(n, (ast.ClassDef, ast.FunctionDef, ast.AsyncFunctionDef)) and n.name == p]
        node = cands[-1] if cands else None      # the last definition wins (typing.overload stubs come first)
        if node is None:
            raise Stale(f'{qual} not in {rel}')
        body = node.body
    return m, node


def edit_in_func(repo, rel: str, qual: str, find: str, repl: str, count: int = 1) -> Dict[str, str]:
    """regex substitution restricted to the source segment of one function/class; must match exactly `count` times"""
    m, node = _find_func(repo, rel, qual) if qual else (repo.by_rel.get(rel), None)
    if m is None:
        raise Stale(f'{rel} not loaded')
    src = repo.read_text(rel)
    lines = src.split('\n')
    if node is None:
        lo, hi = 0, len(lines)
    else:
        lo = min([node.lineno] + [d.lineno for d in node.decorator_list]) - 1
        hi = node.end_lineno
    seg = '\n'.join(lines[lo:hi])
    n = len(re.findall(find, seg, flags=re.S))
    if n != count:
        raise Stale(f'{rel}:{qual}: pattern {find!r} matched {n} time(s), expected {count}')
    seg2 = re.sub(find, repl, seg, flags=re.S)
    try:
        ast.parse('\n'.join(lines[:lo] + seg2.split('\n') + lines[hi:]))
    except SyntaxError as e:
        raise AnalysisError(f'control edit for {rel}:{qual} does not parse: {e}')
    return {rel: '\n'.join(lines[:lo] + seg2.split('\n') + lines[hi:])}


def shift_twin(repo, rels) -> Dict[str, str]:
    """every file: three comment lines after the first line that may legally be followed by a comment (position 0)."""
    out = {}
    for rel in rels:
        if rel.endswith('.py') and repo.exists(rel):
            out[rel] = '# sa twin\n# shifts every line\n\n' + repo.read_text(rel)
    return out


def noop_twin(repo, targets) -> Dict[str, str]:
    """insert `_sa_twin_noop = None` as first statement (after a docstring) of each (rel, qual) function."""
    by_rel: Dict[str, list] = {}
    for rel, qual in targets:
        by_rel.setdefault(rel, []).append(qual)
    out = {}
    for rel, quals in by_rel.items():
        src = repo.read_text(rel).split('\n')
        ins = []
        for q in sorted(set(quals)):
            try:
                _, node = _find_func(repo, rel, q)
            except Stale:
                continue
            if not isinstance(node, (ast.FunctionDef, ast.AsyncFunctionDef)):
                continue
            b = node.body
            first = b[0]
            if isinstance(first, ast.Expr) and isinstance(first.value, ast.Constant) and isinstance(first.value.value, str):
                if len(b) < 2:
                    continue
                first = b[1]
            if first.lineno == node.lineno:   # one-line def
                continue
            ins.append((first.lineno - 1, ' ' * first.col_offset + '_sa_twin_noop = None'))
        for at, text in sorted(ins, reverse=True):
            src.insert(at, text)
        if ins:
            out[rel] = '\n'.join(src)
    return out


from .control_table import HAND  # noqa: E402


def _load_hand(pid):
    return list(HAND.get(pid, []))


def seed_controls(pid: str):
    out = []
    for mp_ in sorted(glob.glob(os.path.join(VERIF, 'seeded', '*', 'meta.json'))):
        try:
            meta = json.load(open(mp_))
        except Exception:
            continue
        if pid in (meta.get('detected_by') or {}):
            d = os.path.dirname(mp_)
            out.append((os.path.basename(d), os.path.join(d, 'patch.diff'), meta['detected_by'][pid]))
    return out


def _rename_locals(tree: ast.AST, suffix='_rn') -> int:
    """Rename, consistently inside each function, every local variable that is not a parameter, not declared global/nonlocal and not
    captured by a nested function/lambda/class.  Returns the number of names renamed."""
    count = 0

    def own_nodes(fn):
        """nodes of fn's body excluding nested function/lambda/class bodies (their headers - defaults, decorators - included)"""
        stack = list(fn.body)
        while stack:
            n = stack.pop()
            yield n
            for ch in ast.iter_child_nodes(n):
                if isinstance(ch, (ast.FunctionDef, ast.AsyncFunctionDef, ast.Lambda, ast.ClassDef)):
                    yield ch
                    continue
                stack.append(ch)

    for fn in [n for n in ast.walk(tree) if isinstance(n, (ast.FunctionDef, ast.AsyncFunctionDef))]:
        params = {a.arg for a in fn.args.posonlyargs + fn.args.args + fn.args.kwonlyargs}
        if fn.args.vararg:
            params.add(fn.args.vararg.arg)
        if fn.args.kwarg:
            params.add(fn.args.kwarg.arg)
        declared = set()
        stored = set()
        nested_refs = set()
        own = list(own_nodes(fn))
        for n in own:
            if isinstance(n, (ast.Global, ast.Nonlocal)):
                declared |= set(n.names)
            if isinstance(n, ast.Name) and isinstance(n.ctx, (ast.Store, ast.Del)):
                stored.add(n.id)
            if isinstance(n, (ast.FunctionDef, ast.AsyncFunctionDef, ast.Lambda, ast.ClassDef)):
                if not isinstance(n, ast.Lambda):
                    stored.discard(n.name)
                    declared.add(n.name)
                for x in ast.walk(n):
                    if isinstance(x, ast.Name):
                        nested_refs.add(x.id)
            if isinstance(n, ast.ExceptHandler) and n.name:
                declared.add(n.name)          # `except E as e` binds a plain string, leave it alone
            if isinstance(n, (ast.Import, ast.ImportFrom)):
                for a in n.names:
                    declared.add((a.asname or a.name).split('.')[0])
            if isinstance(n, ast.MatchAs) and n.name:
                declared.add(n.name)
            if isinstance(n, ast.MatchStar) and n.name:
                declared.add(n.name)
            if isinstance(n, ast.MatchMapping) and n.rest:
                declared.add(n.rest)
        # a function nested in `fn` that refers to one of fn's locals captures it
        victims = {v for v in stored - params - declared - nested_refs if not v.startswith('__')}
        if not victims:
            continue
        for n in own:
            if isinstance(n, ast.Name) and n.id in victims:
                n.id = n.id + suffix
        count += len(victims)
    return count


def reformat_twin(repo, rels, rename: bool):
    out = {}
    for rel in rels:
        if not rel.endswith('.py') or not repo.exists(rel):
            continue
        try:
            tree = ast.parse(repo.read_text(rel))
        except SyntaxError:
            continue
        if rename:
            _rename_locals(tree)
        out[rel] = ast.unparse(tree) + '\n'
    return out


# --------------------------------------------------------------------------- running
_G = {}


def _run_variant(args):
    name, overlay = args
    from . import check
    pid, root, base = _G['pid'], _G['root'], _G['base']
    try:
        ctx, _, _, _ = check.run_property(pid, 'quick', root, overlay=overlay, base=base, quiet=True)
        ctx.check_floors()
        return name, {'viol': sorted({(v['rule'], v['key']) for v in ctx.violations}), 'n': len(ctx.obligations), 'error': None}
    except AnalysisError as e:
        return name, {'viol': [], 'n': 0, 'error': f'ANALYSIS-ERROR {e}'[:300]}
    except Exception as e:  # an internal error on a variant is also "not a pass"
        return name, {'viol': [], 'n': 0, 'error': f'ANALYSIS-ERROR internal {type(e).__name__}: {e}'[:300]}


def run_battery(pid: str, ctx, repo, mod, root: str):
    base_viol = {(v['rule'], v['key']) for v in ctx.violations}
    base_n = len(ctx.obligations)
    variants: List[Tuple[str, str, Optional[str], Dict[str, str]]] = []   # (name, kind, expected, overlay)
    stale = []
    touched = set()
    targets = []
    for name, kind, rel, qual, find, repl, expect in _load_hand(pid) + list(getattr(mod, 'CONTROLS', [])):
        try:
            ov = edit_in_func(repo, rel, qual, find, repl)
        except Stale as e:
            stale.append({'control': name, 'why': str(e)})
            continue
        variants.append((name, kind, expect, ov))
        touched.add(rel)
        if qual:
            targets.append((rel, qual))
    for name, patch, fired in seed_controls(pid):
        try:
            ov = apply_patch(repo, open(patch).read())
        except Stale as e:
            stale.append({'control': 'seed:' + name, 'why': str(e)})
            continue
        variants.append(('seed:' + name, 'break', None, ov))
        touched.update(ov)
    # twins
    files = sorted({o['file'] for o in ctx.obligations if o.get('file', '').endswith('.py')} | {t for t in touched if t.endswith('.py')})
    files = [f for f in files if repo.exists(f)]
    if files:
        variants.append(('twin:shift-all-consulted-files', 'twin', None, shift_twin(repo, files)))
    if targets:
        ov = noop_twin(repo, targets)
        if ov:
            variants.append(('twin:noop-statement-in-controlled-functions', 'twin', None, ov))
    if files:
        variants.append(('twin:reprint-consulted-files (ast.unparse: comments, layout and quoting change)', 'twin', None, reformat_twin(repo, files, rename=False)))
        variants.append(('twin:rename-every-local-variable-in-consulted-files', 'twin', None, reformat_twin(repo, files, rename=True)))
    # refactorings written by independent reviewers as behaviour-preserving (seeded/twins/*): the verdict must not change
    # (the number of obligations may: a helper was extracted, two functions were merged)
    for tp in sorted(glob.glob(os.path.join(VERIF, 'seeded', 'twins', '*', 'patch.diff'))):
        tname = os.path.basename(os.path.dirname(tp))
        try:
            ov = apply_patch(repo, open(tp).read())
        except Stale as e:
            stale.append({'control': 'reviewer-twin:' + tname, 'why': str(e)})
            continue
        if not (set(ov) & set(files)):
            continue            # touches nothing this property's check looks at
        variants.append(('reviewer-twin:' + tname, 'rtwin', None, ov))
    only = os.environ.get('SA_ONLY_CONTROL')
    if only:
        variants = [v for v in variants if only in v[0]]
    _G.update(pid=pid, root=root, base=repo)
    jobs = [(n, ov) for n, _, _, ov in variants]
    if jobs:
        with mp.get_context('fork').Pool(min(16, len(jobs))) as pool:
            results = dict(pool.map(_run_variant, jobs, chunksize=1))
    else:
        results = {}
    failures = []
    n_break = 0
    for name, kind, expect, ov in variants:
        r = results[name]
        viol = {tuple(v) for v in r['viol']}
        new = sorted(viol - base_viol)
        rec = {'control': name, 'kind': kind, 'files': sorted(ov)}
        if kind == 'break':
            n_break += 1
            hit = [v for v in new if expect is None or v[0].startswith(expect)]
            if hit:
                rec['result'] = 'detected'
                rec['by'] = [f'{a} {b}' for a, b in hit[:4]]
            elif r['error']:
                rec['result'] = 'detected (analysis aborted, never a pass)'
                rec['by'] = [r['error']]
            elif expect and any(v[0].startswith(expect) for v in base_viol):
                rec['result'] = 'already violated in the base tree'
            else:
                rec['result'] = 'MISSED'
                failures.append(f'break control {name} was not detected')
        else:
            if r['error']:
                rec['result'] = 'TWIN-ERROR'
                rec['by'] = [r['error']]
                failures.append(f'twin {name}: {r["error"]}')
            elif viol != base_viol or (r['n'] != base_n and kind != 'rtwin'):
                rec['result'] = 'TWIN-CHANGED-VERDICT'
                rec['by'] = [f'{a} {b}' for a, b in sorted(viol ^ base_viol)[:4]] + [f'obligations {base_n} -> {r["n"]}']
                failures.append(f'twin {name} changed the verdict: {rec["by"]}')
            else:
                rec['result'] = 'silent (same verdict, same obligations)' if kind != 'rtwin' else f'silent (same verdict; obligations {base_n} -> {r["n"]})'
        ctx.controls.append(rec)
        print(f"  control {name} [{kind}]: {rec['result']}" + (f" <- {rec['by'][0][:140]}" if rec.get('by') else ''))
    for s in stale:
        ctx.controls.append({'control': s['control'], 'kind': 'stale', 'result': 'skipped: ' + s['why']})
        print(f"  control {s['control']}: stale, skipped ({s['why'][:120]})")
    if failures:
        raise AnalysisError('control battery failed: ' + '; '.join(failures))
    if n_break == 0 and not only:
        raise AnalysisError('no break control could be applied to this tree: the control battery no longer matches the code')
