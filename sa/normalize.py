"""Form-independent views of a function for rules that match statement shapes.

Two behaviour-preserving source transformations, applied to a *copy* of the tree before a shape rule looks at it, so that the
rule does not depend on whether a maintainer extracted a small helper or named an intermediate value:

* inline_simple_helpers: a call `self._h(a, b)` / `_h(a, b)` of a helper whose body is straight-line (assignments and expression
  statements, then one `return`) with pure arguments (names, attributes, constants) is replaced by the helper's statements with the
  parameters substituted, the call itself by the returned expression.
* propagate_single_use_locals: `x = <expr>` followed (with only other such assignments in between) by the single use of `x` is
  folded into that use.

Both keep the order of evaluation of calls, so ordering rules stay meaningful on the result.
"""
from __future__ import annotations

import ast
import copy
from typing import Dict, Optional


class _Subst(ast.NodeTransformer):
    def __init__(self, mapping: Dict[str, ast.AST]):
        self.mapping = mapping

    def visit_Name(self, node):
        if isinstance(node.ctx, ast.Load) and node.id in self.mapping:
            return copy.deepcopy(self.mapping[node.id])
        return node


def _pure(e: ast.AST) -> bool:
    return isinstance(e, (ast.Name, ast.Constant)) or (isinstance(e, ast.Attribute) and _pure(e.value))


def _simple_body(fn: ast.AST):
    body = list(fn.body)
    if body and isinstance(body[0], ast.Expr) and isinstance(body[0].value, ast.Constant) and isinstance(body[0].value.value, str):
        body = body[1:]
    if not body or len(body) > 6:
        return None
    *pre, last = body
    if not all(isinstance(s, (ast.Assign, ast.AugAssign, ast.AnnAssign, ast.Expr)) for s in pre):
        return None
    if isinstance(last, ast.Return):
        return pre, last.value
    if isinstance(last, (ast.Assign, ast.AugAssign, ast.Expr)):
        return pre + [last], None
    return None


def inline_simple_helpers(fn: ast.AST, methods: Dict[str, ast.AST], functions: Optional[Dict[str, ast.AST]] = None, rounds: int = 2, keep=()) -> ast.AST:
    fn = copy.deepcopy(fn)
    functions = functions or {}

    def target(call):
        f = call.func
        if isinstance(f, ast.Attribute) and isinstance(f.value, ast.Name) and f.value.id == 'self' and f.attr in methods and f.attr.startswith('_') and not f.attr.startswith('__') and f.attr not in keep:
            h = methods[f.attr]
            return h, [a.arg for a in h.args.args[1:]]
        if isinstance(f, ast.Name) and f.id in functions and f.id.startswith('_') and f.id not in keep:
            h = functions[f.id]
            return h, [a.arg for a in h.args.args]
        return None

    def expand(st):
        """[statements] replacing st, or None."""
        holder = None
        if isinstance(st, (ast.Assign, ast.AnnAssign, ast.Expr, ast.Return)) and isinstance(getattr(st, 'value', None), ast.Call):
            holder = st
        if holder is None:
            return None
        call = holder.value
        t = target(call)
        if t is None:
            return None
        h, params = t
        if isinstance(h, ast.AsyncFunctionDef) or h.args.vararg or h.args.kwarg or any(isinstance(x, (ast.Yield, ast.YieldFrom, ast.Await)) for x in ast.walk(h)):
            return None
        sb = _simple_body(h)
        if sb is None:
            return None
        pre, ret = sb
        binding = {}
        for p, a in zip(params, call.args):
            binding[p] = a
        for k in call.keywords:
            if k.arg is None:
                return None
            binding[k.arg] = k.value
        dflt = dict(zip(reversed(params), reversed(h.args.defaults)))
        for p in params:
            if p not in binding:
                if p not in dflt:
                    return None
                binding[p] = dflt[p]
        if not all(_pure(v) for v in binding.values()):
            return None
        # locals of the helper must not clash with names of the caller
        hlocals = {t_.id for s in pre for t_ in ast.walk(s) if isinstance(t_, ast.Name) and isinstance(t_.ctx, ast.Store)}
        if hlocals & {n.id for n in ast.walk(fn) if isinstance(n, ast.Name)}:
            return None
        out = []
        for s in pre:
            s2 = _Subst(binding).visit(copy.deepcopy(s))
            ast.copy_location(s2, st)
            out.append(s2)
        if isinstance(holder, ast.Expr):
            if ret is not None and not _pure(ret):
                e = ast.Expr(value=_Subst(binding).visit(copy.deepcopy(ret)))
                out.append(ast.copy_location(e, st))
        else:
            if ret is None:
                ret = ast.Constant(value=None)
            new = copy.copy(holder)
            new.value = _Subst(binding).visit(copy.deepcopy(ret))
            out.append(new)
        for o in out:
            ast.fix_missing_locations(o)
        return out

    def rewrite_block(stmts):
        res = []
        for st in stmts:
            for fld in ('body', 'orelse', 'finalbody'):
                if hasattr(st, fld) and isinstance(getattr(st, fld), list):
                    setattr(st, fld, rewrite_block(getattr(st, fld)))
            if hasattr(st, 'handlers'):
                for h in st.handlers:
                    h.body = rewrite_block(h.body)
            e = expand(st)
            res.extend(e if e is not None else [st])
        return res
    for _ in range(rounds):
        fn.body = rewrite_block(fn.body)
    return fn


def propagate_single_use_locals(fn: ast.AST) -> ast.AST:
    fn = copy.deepcopy(fn)
    stores: Dict[str, int] = {}
    loads: Dict[str, int] = {}
    for n in ast.walk(fn):
        if isinstance(n, ast.Name):
            if isinstance(n.ctx, ast.Store):
                stores[n.id] = stores.get(n.id, 0) + 1
            else:
                loads[n.id] = loads.get(n.id, 0) + 1
    params = {a.arg for a in fn.args.args + fn.args.kwonlyargs}

    def candidate(st):
        return isinstance(st, ast.Assign) and len(st.targets) == 1 and isinstance(st.targets[0], ast.Name) and stores.get(st.targets[0].id) == 1 \
            and loads.get(st.targets[0].id, 0) == 1 and st.targets[0].id not in params and not any(isinstance(x, (ast.Await, ast.Yield, ast.YieldFrom)) for x in ast.walk(st.value))

    def rewrite_block(stmts):
        res = []
        pending: Dict[str, ast.AST] = {}
        held = []
        for st in stmts:
            if candidate(st):
                st.value = _Subst(pending).visit(st.value)
                pending[st.targets[0].id] = st.value
                held.append(st)
                continue
            if pending:
                # only the head of a compound statement is evaluated next; a simple statement entirely
                heads = [st] if not hasattr(st, 'body') else [getattr(st, f) for f in ('test', 'iter') if hasattr(st, f)]
                used = {n.id for h in heads for n in ast.walk(h) if isinstance(n, ast.Name) and isinstance(n.ctx, ast.Load)} & set(pending)
                if used and not hasattr(st, 'body'):
                    st = _Subst({k: pending[k] for k in used}).visit(st)
                    held = [h for h in held if h.targets[0].id not in used]
                res.extend(held)
                pending, held = {}, []
            for fld in ('body', 'orelse', 'finalbody'):
                if hasattr(st, fld) and isinstance(getattr(st, fld), list):
                    setattr(st, fld, rewrite_block(getattr(st, fld)))
            if hasattr(st, 'handlers'):
                for h in st.handlers:
                    h.body = rewrite_block(h.body)
            res.append(st)
        res.extend(held)
        return res
    fn.body = rewrite_block(fn.body)
    ast.fix_missing_locations(fn)
    return fn


def canonical(fn: ast.AST, methods: Dict[str, ast.AST], functions: Optional[Dict[str, ast.AST]] = None, keep=()) -> ast.AST:
    """keep: helpers a rule refers to by name (they stay calls)."""
    return propagate_single_use_locals(inline_simple_helpers(fn, methods, functions, keep=keep))
