"""Coherence extractors shared by several properties: JSON writer key sets, constructor
call bindings, equality/hash field sets, dataclass fields, self-reconstruction sites."""
from __future__ import annotations

import ast
from typing import Dict, List, Optional, Set, Tuple

from .core import ClassInfo, Repo, call_name, dotted, func_param_defaults, is_self_attr, walk_local
from . import fields as F


class Opaque(Exception):
    pass


def dataclass_fields(repo: Repo, ci: ClassInfo) -> List[str]:
    out: List[str] = []
    for c in reversed(repo.mro(ci)):
        for st in c.node.body:
            if isinstance(st, ast.AnnAssign) and isinstance(st.target, ast.Name):
                ann = ast.unparse(st.annotation)
                if 'ClassVar' in ann:
                    continue
                if st.target.id not in out:
                    out.append(st.target.id)
    return out


def is_dataclass(repo: Repo, ci: ClassInfo) -> bool:
    for c in repo.mro(ci):
        for d in c.decorator_names():
            if d.split('.')[-1] in ('dataclass', 'json_serializable_dataclass', 'frozen', 'define', 'mutable'):
                return True
    return False


def _dict_literal_keys(node: ast.Dict, repo, ci, fn, env) -> Tuple[Set[str], bool]:
    keys: Set[str] = set()
    for k, v in zip(node.keys, node.values):
        if k is None:  # **expr
            sub = _expr_keys(v, repo, ci, fn, env)
            keys |= sub
        elif isinstance(k, ast.Constant) and isinstance(k.value, str):
            keys.add(k.value)
        else:
            raise Opaque(f'non-literal dict key {ast.unparse(k)}')
    return keys, True


_OPT: Set[str] = set()


def _names_list(node: ast.AST) -> List[str]:
    if isinstance(node, ast.IfExp):
        a, b = _names_list(node.body), _names_list(node.orelse)
        _OPT.update(set(a) ^ set(b))
        return list(dict.fromkeys(a + b))
    if isinstance(node, (ast.List, ast.Tuple)):
        out = []
        for e in node.elts:
            if isinstance(e, ast.Constant) and isinstance(e.value, str):
                out.append(e.value)
            else:
                raise Opaque('non-literal attribute name')
        return out
    raise Opaque(f'attribute_names not a literal list: {ast.unparse(node)[:60]}')


def _expr_keys(node: ast.AST, repo: Repo, ci: ClassInfo, fn, env: Dict[str, Set[str]]) -> Set[str]:
    if isinstance(node, ast.Dict):
        return _dict_literal_keys(node, repo, ci, fn, env)[0]
    if isinstance(node, ast.Name) and node.id in env:
        return set(env[node.id])
    if isinstance(node, ast.Call):
        nm = call_name(node)
        if nm == 'obj_to_dict_helper':
            arg = node.args[1] if len(node.args) > 1 else None
            for k in node.keywords:
                if k.arg == 'attribute_names':
                    arg = k.value
            if isinstance(arg, ast.Name) and arg.id in env:
                return set(env[arg.id])
            return set(_names_list(arg))
        if nm in ('dataclass_json_dict', 'attrs_json_dict'):
            return set(dataclass_fields(repo, ci))
        if nm == 'dict' and not node.args:
            return {k.arg for k in node.keywords if k.arg}
        if nm == '_json_dict_' and isinstance(node.func, ast.Attribute):
            v = node.func.value
            # super()._json_dict_()
            if isinstance(v, ast.Call) and isinstance(v.func, ast.Name) and v.func.id == 'super':
                owner = None
                for c in repo.mro(ci):
                    if fn in c.methods.values():
                        owner = c
                mro = repo.mro(ci)
                start = mro.index(owner) + 1 if owner in mro else 1
                for b in mro[start:]:
                    if '_json_dict_' in b.methods:
                        ks = json_keys(repo, b)
                        return set(ks['all'])
                raise Opaque('super()._json_dict_ not found')
            # self.something._json_dict_() : wrapped object's dict - opaque
        if nm == 'copy' and isinstance(node.func, ast.Attribute):
            return _expr_keys(node.func.value, repo, ci, fn, env)
    if isinstance(node, ast.BinOp) and isinstance(node.op, ast.BitOr):
        return _expr_keys(node.left, repo, ci, fn, env) | _expr_keys(node.right, repo, ci, fn, env)
    if isinstance(node, ast.IfExp):
        return _expr_keys(node.body, repo, ci, fn, env) | _expr_keys(node.orelse, repo, ci, fn, env)
    raise Opaque(f'cannot extract keys of {ast.unparse(node)[:70]}')


def json_keys(repo: Repo, ci: ClassInfo) -> Optional[dict]:
    """Key sets of the class's `_json_dict_` writer.
    Returns {'all': keys on some path, 'always': keys on every path, 'owner': ClassInfo,
    'fn': node} or raises Opaque; None when the class has no writer."""
    r = repo.find_method(ci, '_json_dict_')
    if r is None:
        if is_dataclass(repo, ci) and any('json_serializable_dataclass' in d for c in repo.mro(ci) for d in c.decorator_names()):
            ks = set(dataclass_fields(repo, ci))
            return {'all': ks, 'always': set(ks), 'owner': ci, 'fn': None}
        return None
    owner, fn = r
    env: Dict[str, Set[str]] = {}
    per_return: List[Set[str]] = []
    saved_opt = set(_OPT)
    _OPT.clear()
    opt = _OPT
    from .flow import stmts_in_order
    for st in stmts_in_order(fn):
        if isinstance(st, ast.Assign) and len(st.targets) == 1 and isinstance(st.targets[0], ast.Name):
            try:
                env[st.targets[0].id] = _expr_keys(st.value, repo, ci, fn, env)
            except Opaque:
                if isinstance(st.value, (ast.List, ast.Tuple, ast.IfExp)):
                    try:
                        env[st.targets[0].id] = set(_names_list(st.value))
                    except Opaque:
                        pass
        elif isinstance(st, ast.AnnAssign) and isinstance(st.target, ast.Name) and st.value is not None:
            try:
                env[st.target.id] = _expr_keys(st.value, repo, ci, fn, env)
            except Opaque:
                pass
        elif isinstance(st, ast.Assign) and isinstance(st.targets[0], ast.Subscript) \
                and isinstance(st.targets[0].value, ast.Name) and st.targets[0].value.id in env:
            k = st.targets[0].slice
            if isinstance(k, ast.Constant) and isinstance(k.value, str):
                env[st.targets[0].value.id].add(k.value)
                if st not in fn.body:
                    opt.add(k.value)  # stored under a condition / in a loop
            else:
                env.pop(st.targets[0].value.id, None)  # computed key: that local is opaque
        elif isinstance(st, ast.Expr) and isinstance(st.value, ast.Call) and isinstance(st.value.func, ast.Attribute) \
                and isinstance(st.value.func.value, ast.Name) and st.value.func.value.id in env:
            c = st.value
            if c.func.attr == 'update' and c.args:
                env[c.func.value.id] |= _expr_keys(c.args[0], repo, ci, fn, env)
            elif c.func.attr == 'append' and c.args and isinstance(c.args[0], ast.Constant):
                env[c.func.value.id].add(c.args[0].value)
                opt.add(c.args[0].value)
            elif c.func.attr in ('pop',) and c.args and isinstance(c.args[0], ast.Constant):
                env[c.func.value.id].discard(c.args[0].value)
        elif isinstance(st, ast.Delete):
            for t in st.targets:
                if isinstance(t, ast.Subscript) and isinstance(t.value, ast.Name) and t.value.id in env \
                        and isinstance(t.slice, ast.Constant):
                    env[t.value.id].discard(t.slice.value)
        elif isinstance(st, ast.Return) and st.value is not None:
            per_return.append(_expr_keys(st.value, repo, ci, fn, env))
    if not per_return:
        raise Opaque('no return with extractable keys')
    allk = set().union(*per_return)
    always = set.intersection(*per_return) - set(opt)
    _OPT.clear()
    _OPT.update(saved_opt)
    allk.discard('cirq_type')
    always.discard('cirq_type')
    return {'all': allk, 'always': always, 'owner': owner, 'fn': fn}


def bind_call(call: ast.Call, params: List[str]) -> Tuple[Dict[str, ast.AST], bool]:
    """Bind a call's arguments to parameter names. Returns (bound, opaque) where opaque is
    True if *args/**kwargs make the binding incomplete."""
    bound: Dict[str, ast.AST] = {}
    opaque = False
    i = 0
    for a in call.args:
        if isinstance(a, ast.Starred):
            opaque = True
            continue
        if i < len(params):
            bound[params[i]] = a
        i += 1
    for k in call.keywords:
        if k.arg is None:
            opaque = True
        else:
            bound[k.arg] = k.value
    return bound, opaque


def _own_dataclass(ci: ClassInfo) -> bool:
    return any(d.split('.')[-1] in ('dataclass', 'json_serializable_dataclass', 'frozen', 'define', 'mutable')
               for d in ci.decorator_names())


def init_info(repo: Repo, ci: ClassInfo):
    """(owner, fn|None, params (without self), defaults map, has_var_kw) of the effective
    constructor: nearest explicit __init__ in the MRO, unless a dataclass decorator comes
    first (then the field list); falls back to __new__."""
    for c in repo.mro(ci):
        if '__init__' in c.methods:
            fn = c.methods['__init__']
            params = [a.arg for a in fn.args.posonlyargs + fn.args.args[1:] + fn.args.kwonlyargs]
            d = func_param_defaults(fn)
            return c, fn, params, {p: d.get(p) for p in params}, fn.args.kwarg is not None
        if _own_dataclass(c):
            fl = dataclass_fields(repo, c)
            defaults = {}
            for cc in repo.mro(c):
                for st in cc.node.body:
                    if isinstance(st, ast.AnnAssign) and isinstance(st.target, ast.Name):
                        defaults.setdefault(st.target.id, st.value)
            return c, None, fl, {f: defaults.get(f) for f in fl}, False
    n = repo.find_method(ci, '__new__')
    if n is not None:
        fn = n[1]
        params = [a.arg for a in fn.args.posonlyargs + fn.args.args[1:] + fn.args.kwonlyargs]
        d = func_param_defaults(fn)
        return n[0], fn, params, {p: d.get(p) for p in params}, fn.args.kwarg is not None
    return None


def eq_fields(repo: Repo, ci: ClassInfo) -> Optional[Tuple[Set[str], str]]:
    """Fields that equality compares: from `_value_equality_values_` (with
    @value_equality), else from `__eq__`. Returns (fields, how) or None."""
    r = repo.find_method(ci, '_value_equality_values_')
    if r is not None:
        return F.self_reads(repo, ci, r[1], depth=2), '_value_equality_values_'
    r = repo.find_method(ci, '__eq__')
    if r is not None:
        return F.self_reads(repo, ci, r[1], depth=2), '__eq__'
    if is_dataclass(repo, ci):
        return set(dataclass_fields(repo, ci)), 'dataclass'
    return None


def self_constructions(repo: Repo, ci: ClassInfo, fn: ast.AST) -> List[ast.Call]:
    """Calls in `fn` that construct an instance of the method's own class:
    C(...), type(self)(...), self.__class__(...), cls(...)."""
    out = []
    names = {c.name for c in repo.mro(ci)[:1]}
    for c in ast.walk(fn):
        if not isinstance(c, ast.Call):
            continue
        f = c.func
        if isinstance(f, ast.Name) and f.id in names:
            out.append(c)
        elif isinstance(f, ast.Attribute) and f.attr in names and dotted(f) and not is_self_attr(f):
            out.append(c)
        elif isinstance(f, ast.Call) and isinstance(f.func, ast.Name) and f.func.id == 'type' and len(f.args) == 1 \
                and isinstance(f.args[0], ast.Name) and f.args[0].id == 'self':
            out.append(c)
        elif isinstance(f, ast.Attribute) and f.attr == '__class__' and isinstance(f.value, ast.Name) and f.value.id == 'self':
            out.append(c)
    return out
