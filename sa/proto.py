"""Minimal .proto (proto3) reader: messages (nested), fields, oneofs, enums."""
from __future__ import annotations

import re
from typing import Dict, List, Optional


class Msg:
    def __init__(self, name: str, full: str):
        self.name = name
        self.full = full
        self.fields: Dict[str, dict] = {}   # name -> {type, number, repeated, oneof, map}
        self.oneofs: Dict[str, List[str]] = {}
        self.nested: Dict[str, 'Msg'] = {}
        self.enums: Dict[str, Dict[str, int]] = {}


_TOKEN = re.compile(r'//[^\n]*|/\*.*?\*/|"(?:[^"\\]|\\.)*"|[A-Za-z_][\w.]*|\d+|[{}=;<>,\[\]()]', re.S)


def parse(text: str) -> Dict[str, Msg]:
    toks = [t for t in _TOKEN.findall(text) if not t.startswith('//') and not t.startswith('/*')]
    pos = 0
    top: Dict[str, Msg] = {}

    def skip_block():
        nonlocal pos
        depth = 0
        while pos < len(toks):
            t = toks[pos]
            pos += 1
            if t == '{':
                depth += 1
            elif t == '}':
                depth -= 1
                if depth == 0:
                    return

    def skip_stmt():
        nonlocal pos
        while pos < len(toks) and toks[pos] != ';':
            pos += 1
        pos += 1

    def parse_enum(owner_enums):
        nonlocal pos
        name = toks[pos]
        pos += 1
        assert toks[pos] == '{'
        pos += 1
        vals = {}
        while toks[pos] != '}':
            if toks[pos] in ('option', 'reserved'):
                skip_stmt()
                continue
            k = toks[pos]
            if toks[pos + 1] == '=':
                vals[k] = int(toks[pos + 2])
            skip_stmt()
        pos += 1
        owner_enums[name] = vals

    def parse_msg(prefix: str) -> Msg:
        nonlocal pos
        name = toks[pos]
        pos += 1
        m = Msg(name, prefix + name)
        assert toks[pos] == '{', toks[pos:pos + 3]
        pos += 1
        cur_oneof: Optional[str] = None
        depth_oneof = 0
        while True:
            t = toks[pos]
            if t == '}':
                pos += 1
                if cur_oneof is not None:
                    cur_oneof = None
                    continue
                return m
            if t == 'message':
                pos += 1
                sub = parse_msg(m.full + '.')
                m.nested[sub.name] = sub
                continue
            if t == 'enum':
                pos += 1
                parse_enum(m.enums)
                continue
            if t == 'oneof':
                cur_oneof = toks[pos + 1]
                m.oneofs[cur_oneof] = []
                pos += 3
                continue
            if t in ('reserved', 'option', 'extensions'):
                skip_stmt()
                continue
            repeated = False
            if t in ('repeated', 'optional'):
                repeated = t == 'repeated'
                pos += 1
                t = toks[pos]
            is_map = False
            if t == 'map':
                # map < K , V > name = N ;
                is_map = True
                ftype = 'map<' + toks[pos + 2] + ',' + toks[pos + 4] + '>'
                pos += 6
            else:
                ftype = t
                pos += 1
            fname = toks[pos]
            num = int(toks[pos + 2])
            m.fields[fname] = {'type': ftype, 'number': num, 'repeated': repeated, 'oneof': cur_oneof, 'map': is_map}
            if cur_oneof is not None:
                m.oneofs[cur_oneof].append(fname)
            skip_stmt()

    while pos < len(toks):
        t = toks[pos]
        if t == 'message':
            pos += 1
            m = parse_msg('')
            top[m.name] = m
        elif t == 'enum':
            pos += 1
            parse_enum({})
        elif t in ('syntax', 'package', 'import', 'option'):
            skip_stmt()
        else:
            pos += 1
    return top


def find(msgs: Dict[str, Msg], type_name: str, scope: Optional[Msg] = None) -> Optional[Msg]:
    parts = type_name.split('.')
    if scope is not None and parts[0] in scope.nested:
        cur = scope.nested[parts[0]]
    else:
        cur = msgs.get(parts[0])
    for p in parts[1:]:
        if cur is None:
            return None
        cur = cur.nested.get(p)
    return cur
