"""Finite-domain transfer-function extraction (FDX).

A tiny evaluator for the straight-line / branching bodies of functions whose inputs range
over a finite set.  It walks the *syntax tree* of the repository function (nothing is
imported or called in the repository); the caller supplies the concrete input point and an
environment describing what `self.<field>[...]` cells mean.  Unsupported syntax raises
Unsupported (reported as ANALYSIS-ERROR, never as a pass).
"""
from __future__ import annotations

import ast
import operator
from typing import Any, Callable, Dict, Optional


DEFAULT_REPO = None
_OWNERS = {}


def _owner_of(fn):
    if not _OWNERS and DEFAULT_REPO is not None:
        for mod, ci, f in DEFAULT_REPO.all_functions():
            _OWNERS[id(f)] = (mod, ci)
    return _OWNERS.get(id(fn))


class Unsupported(Exception):
    pass


class Raised(Exception):
    """The interpreted function reached a `raise` statement."""

    def __init__(self, node):
        super().__init__(ast.unparse(node)[:80])
        self.node = node


class _Break(Exception):
    pass


class _Continue(Exception):
    pass


class _Return(Exception):
    def __init__(self, value):
        self.value = value


BIN = {
    ast.Add: operator.add, ast.Sub: operator.sub, ast.Mult: operator.mul, ast.Mod: operator.mod,
    ast.BitAnd: operator.and_, ast.BitOr: operator.or_, ast.BitXor: operator.xor, ast.Pow: operator.pow,
    ast.FloorDiv: operator.floordiv, ast.Div: operator.truediv, ast.LShift: operator.lshift, ast.RShift: operator.rshift,
    ast.MatMult: operator.matmul,
}
CMP = {
    ast.Eq: operator.eq, ast.NotEq: operator.ne, ast.Lt: operator.lt, ast.LtE: operator.le, ast.Gt: operator.gt,
    ast.GtE: operator.ge, ast.Is: operator.is_, ast.IsNot: operator.is_not,
    ast.In: lambda a, b: a in b, ast.NotIn: lambda a, b: a not in b,
}


class Bit(int):
    """A tableau cell: a Boolean on which ~ is logical negation (numpy bool semantics)."""

    def __new__(cls, v):
        return super().__new__(cls, 1 if v else 0)

    def __invert__(self):
        return Bit(not int(self))

    def __and__(self, o):
        return Bit(int(self) & int(o))

    __rand__ = __and__

    def __or__(self, o):
        return Bit(int(self) | int(o))

    __ror__ = __or__

    def __xor__(self, o):
        return Bit(int(self) ^ int(o))

    __rxor__ = __xor__


class Interp:
    def __init__(self, env: Dict[str, Any], cells: Optional[Dict[Any, Any]] = None,
                 cell_key: Optional[Callable[[ast.AST, 'Interp'], Any]] = None,
                 call_hook: Optional[Callable[[ast.Call, 'Interp'], Any]] = None,
                 attr_hook: Optional[Callable[[ast.Attribute, 'Interp'], Any]] = None):
        self.env = dict(env)
        self.cells = cells if cells is not None else {}
        self.cell_key = cell_key
        self.call_hook = call_hook
        self.attr_hook = attr_hook
        self.steps = 0

    # ------------------------------------------------------------ expressions
    def ev(self, n: ast.AST):
        self.steps += 1
        if self.steps > 20000:
            raise Unsupported('step limit')
        if isinstance(n, ast.Constant):
            return n.value
        if isinstance(n, ast.Name):
            if n.id in self.env:
                return self.env[n.id]
            if n.id in ('True', 'False', 'None'):
                return {'True': True, 'False': False, 'None': None}[n.id]
            if n.id == 'NotImplemented':
                return NotImplemented
            raise Unsupported(f'unbound name {n.id}')
        if isinstance(n, ast.UnaryOp):
            v = self.ev(n.operand)
            if isinstance(n.op, ast.Invert):
                return ~v
            if isinstance(n.op, ast.Not):
                return not v
            if isinstance(n.op, ast.USub):
                return -v
            if isinstance(n.op, ast.UAdd):
                return +v
        if isinstance(n, ast.BinOp):
            f = BIN.get(type(n.op))
            if f is None:
                raise Unsupported(ast.dump(n.op))
            return f(self.ev(n.left), self.ev(n.right))
        if isinstance(n, ast.BoolOp):
            if isinstance(n.op, ast.And):
                v = True
                for x in n.values:
                    v = self.ev(x)
                    if not v:
                        return v
                return v
            v = False
            for x in n.values:
                v = self.ev(x)
                if v:
                    return v
            return v
        if isinstance(n, ast.Compare):
            l = self.ev(n.left)
            for op, c in zip(n.ops, n.comparators):
                r = self.ev(c)
                if not CMP[type(op)](l, r):
                    return False
                l = r
            return True
        if isinstance(n, ast.IfExp):
            return self.ev(n.body) if self.ev(n.test) else self.ev(n.orelse)
        if isinstance(n, ast.Lambda):
            outer = self

            def lam(*args, _fn=n):
                params = [a.arg for a in _fn.args.posonlyargs + _fn.args.args]
                env = dict(outer.env)
                for a, d in zip(reversed(params), reversed(_fn.args.defaults)):
                    env[a] = outer.ev(d)
                env.update(dict(zip(params, args)))
                sub = type(outer)(env, call_hook=outer.call_hook, attr_hook=outer.attr_hook)
                if hasattr(outer, 'resolver'):
                    sub.resolver = outer.resolver
                return sub.ev(_fn.body)
            return lam
        if isinstance(n, (ast.Tuple, ast.List)):
            out = []
            for e in n.elts:
                if isinstance(e, ast.Starred):
                    out.extend(list(self.ev(e.value)))
                else:
                    out.append(self.ev(e))
            return tuple(out) if isinstance(n, ast.Tuple) else out
        if isinstance(n, ast.Subscript):
            if self.cell_key is not None:
                k = self.cell_key(n, self)
                if k is not None:
                    if k not in self.cells:
                        raise Unsupported(f'cell {k} not in the declared domain')
                    return self.cells[k]
            v = self.ev(n.value)
            i = self.ev(n.slice)
            return v[i]
        if isinstance(n, ast.Attribute):
            if self.attr_hook is not None:
                r = self.attr_hook(n, self)
                if r is not NotImplemented:
                    return r
            v = self.ev(n.value)
            if isinstance(v, dict) and n.attr in v:
                return v[n.attr]
            raise Unsupported(f'attribute {ast.unparse(n)}')
        if isinstance(n, ast.Call):
            if isinstance(n.func, ast.Attribute) and n.func.attr == 'copy' and not n.args:
                return self.ev(n.func.value)
            if isinstance(n.func, ast.Name) and n.func.id in ('int', 'bool', 'abs', 'len', 'max', 'min', 'complex', 'float'):
                f = {'int': int, 'bool': bool, 'abs': abs, 'len': len, 'max': max, 'min': min, 'complex': complex, 'float': float}[n.func.id]
                return f(*[self.ev(a) for a in n.args])
            if self.call_hook is not None:
                r = self.call_hook(n, self)
                if r is not NotImplemented:
                    return r
            raise Unsupported(f'call {ast.unparse(n)[:60]}')
        raise Unsupported(type(n).__name__ + ': ' + ast.unparse(n)[:60])

    # ------------------------------------------------------------- statements
    def store(self, t: ast.AST, v):
        if isinstance(t, ast.Name):
            self.env[t.id] = v
            return
        if isinstance(t, (ast.Tuple, ast.List)):
            vs = list(v)
            star = [i for i, e in enumerate(t.elts) if isinstance(e, ast.Starred)]
            if len(star) == 1 and len(vs) >= len(t.elts) - 1:       # head, *rest = xs
                i = star[0]
                tail = len(t.elts) - i - 1
                for e, x in zip(t.elts[:i], vs[:i]):
                    self.store(e, x)
                self.store(t.elts[i].value, vs[i:len(vs) - tail])
                for e, x in zip(t.elts[i + 1:], vs[len(vs) - tail:]):
                    self.store(e, x)
                return
            if len(vs) != len(t.elts):
                raise Unsupported('unpack arity')
            for e, x in zip(t.elts, vs):
                self.store(e, x)
            return
        if isinstance(t, ast.Subscript) and self.cell_key is not None:
            k = self.cell_key(t, self)
            if k is not None:
                if k not in self.cells:
                    raise Unsupported(f'store to cell {k} outside the declared domain')
                self.cells[k] = v
                return
        raise Unsupported('store to ' + ast.unparse(t)[:60])

    def run_block(self, stmts):
        for st in stmts:
            self.run_stmt(st)

    def run_stmt(self, st):
        if isinstance(st, ast.Expr):
            if isinstance(st.value, ast.Constant):
                return
            self.ev(st.value)
        elif isinstance(st, ast.Assign):
            v = self.ev(st.value)
            for t in st.targets:
                self.store(t, v)
        elif isinstance(st, ast.AnnAssign):
            if st.value is not None:
                self.store(st.target, self.ev(st.value))
        elif isinstance(st, ast.AugAssign):
            f = BIN.get(type(st.op))
            if f is None:
                raise Unsupported('augop')
            cur = self.ev(ast.copy_location(_as_load(st.target), st.target))
            self.store(st.target, f(cur, self.ev(st.value)))
        elif isinstance(st, ast.If):
            self.run_block(st.body if self.ev(st.test) else st.orelse)
        elif isinstance(st, ast.Return):
            raise _Return(self.ev(st.value) if st.value is not None else None)
        elif isinstance(st, ast.Raise):
            raise Raised(st)
        elif isinstance(st, ast.Pass):
            return
        elif isinstance(st, ast.Assert):
            if not self.ev(st.test):
                raise Raised(st)
        elif isinstance(st, ast.For):
            it = self.ev(st.iter)
            broke = False
            for x in it:
                self.store(st.target, x)
                try:
                    self.run_block(st.body)
                except _Continue:
                    continue
                except _Break:
                    broke = True
                    break
            if not broke and st.orelse:
                self.run_block(st.orelse)
        elif isinstance(st, ast.While):
            n_iter = 0
            broke = False
            while self.ev(st.test):
                n_iter += 1
                if n_iter > 100000:
                    raise Unsupported('while loop does not terminate within 100000 iterations')
                try:
                    self.run_block(st.body)
                except _Continue:
                    continue
                except _Break:
                    broke = True
                    break
            if not broke and st.orelse:
                self.run_block(st.orelse)
        elif isinstance(st, ast.Match):
            subject = self.ev(st.subject)

            def matches(pat):
                if isinstance(pat, ast.MatchValue):
                    return subject == self.ev(pat.value)
                if isinstance(pat, ast.MatchSingleton):
                    return subject is pat.value
                if isinstance(pat, ast.MatchOr):
                    return any(matches(p_) for p_ in pat.patterns)
                if isinstance(pat, ast.MatchAs) and pat.pattern is None:
                    if pat.name:
                        self.env[pat.name] = subject
                    return True
                raise Unsupported('match pattern ' + type(pat).__name__)
            for case in st.cases:
                if matches(case.pattern) and (case.guard is None or self.ev(case.guard)):
                    self.run_block(case.body)
                    break
        elif isinstance(st, (ast.Import, ast.ImportFrom)):
            # a local import only binds names; what is done with them is decided by the hooks (nothing is imported)
            for al in st.names:
                self.env[(al.asname or al.name).split('.')[0]] = ('<module>', al.name)
        elif isinstance(st, ast.Break):
            raise _Break()
        elif isinstance(st, ast.Continue):
            raise _Continue()
        elif isinstance(st, ast.FunctionDef):
            outer = self

            def closure(*args, _fn=st, **kwargs):
                params = [a.arg for a in _fn.args.posonlyargs + _fn.args.args]
                env = dict(outer.env)               # read access to the enclosing scope (no nonlocal writes)
                for a, d in zip(reversed(params), reversed(_fn.args.defaults)):
                    env[a] = outer.ev(d)
                env.update(dict(zip(params, args)))
                env.update(kwargs)
                sub = type(outer)(env, call_hook=outer.call_hook, attr_hook=outer.attr_hook)
                if hasattr(outer, 'resolver'):
                    sub.resolver = outer.resolver
                return sub.call(_fn)
            self.env[st.name] = closure
        else:
            raise Unsupported(type(st).__name__)

    def call(self, fn: ast.AST):
        # Default for every rule: calls of the owning class's own methods and of module-level repository functions are followed (unless the
        # rule's call_hook answers first), so that a rule interprets the same behaviour before and after a helper is extracted.
        if DEFAULT_REPO is not None and getattr(self, 'auto', None) is None and isinstance(self, NumInterp):
            owner = _owner_of(fn)
            if owner is not None:
                mod, ci = owner
                meths = None
                if ci is not None:
                    meths = {}
                    for c in reversed(DEFAULT_REPO.mro(ci)):
                        meths.update(c.methods)
                self.auto = (meths, _module_resolver(DEFAULT_REPO, mod, fn))
        try:
            self.run_block([s for s in fn.body])
        except _Return as r:
            return r.value
        return None


def _as_load(t):
    t2 = ast.parse(ast.unparse(t), mode='eval').body
    return t2


# ---------------------------------------------------------------------------------------------
class NumInterp(Interp):
    """Interp extended with a closed numpy vocabulary, comprehensions and container stores - used to
    extract literal-ish numeric tables that are built with small loops (e.g. qudit X/Z eigen-components).
    Only whitelisted numpy functions on values computed from the interpreted source are evaluated."""

    def __init__(self, env, **kw):
        import numpy as np
        super().__init__(env, **kw)
        self.np = np
        self.npfuncs = {
            'array': np.array, 'roll': np.roll, 'zeros': np.zeros, 'ones': np.ones, 'eye': np.eye, 'diag': np.diag,
            'sqrt': np.sqrt, 'exp': np.exp, 'kron': np.kron, 'cos': np.cos, 'sin': np.sin, 'conj': np.conj, 'pi': np.pi,
            'complex128': complex, 'complex64': complex, 'float64': float,
            'einsum': np.einsum, 'moveaxis': np.moveaxis, 'unravel_index': np.unravel_index, 'argmax': np.argmax, 'transpose': np.transpose, 'reshape': np.reshape, 'outer': np.outer, 'tensordot': np.tensordot,
            'sort': np.sort, 'flatnonzero': np.flatnonzero, 'nonzero': np.nonzero, 'count_nonzero': np.count_nonzero, 'logical_xor': np.logical_xor, 'asarray': np.asarray, 'abs': np.abs, 'mod': np.mod, 'arange': np.arange, 'cumprod': np.cumprod, 'hstack': np.hstack,
            'concatenate': np.concatenate, 'dot': np.dot, 'hypot': np.hypot, 'append': np.append, 'prod': np.prod, 'isclose': np.isclose, 'allclose': np.allclose, 'log': np.log, 'power': np.power, 'trace': np.trace, 'square': np.square, 'sum': np.sum, 'tan': np.tan, 'arccos': np.arccos, 'arcsin': np.arcsin, 'angle': np.angle, 'real': np.real, 'imag': np.imag, 'round': np.round, 'floor': np.floor, 'ceil': np.ceil, 'sign': np.sign,
        }
        import math as _math
        import cmath as _cmath
        self.mathfuncs = {'math': {k: getattr(_math, k) for k in ('pi', 'cos', 'sin', 'sqrt', 'floor', 'ceil', 'e', 'exp', 'tau', 'atan2', 'acos', 'asin', 'isclose', 'log', 'hypot', 'fmod', 'prod', 'gcd', 'lcm', 'isfinite', 'copysign')},
                          'cmath': {k: getattr(_cmath, k) for k in ('exp', 'sqrt', 'pi', 'phase', 'cos', 'sin')}}
        import textwrap as _tw, itertools as _it, json as _json, fractions as _fr
        self.stdlib = {'textwrap': _tw, 'itertools': _it, 'json': _json, 'fractions': _fr}     # pure standard-library helpers may be called
        self.builtins = {'chr': chr, 'ord': ord, 'str': str, 'sorted': sorted, 'reversed': reversed, 'set': set, 'any': any, 'all': all, 'dict': dict, 'bool': bool,
                         'range': range, 'len': len, 'list': list, 'tuple': tuple, 'enumerate': enumerate, 'sum': sum,
                         'int': int, 'float': float, 'complex': complex, 'abs': abs, 'max': max, 'min': min, 'zip': zip, 'bin': bin, 'hex': hex, 'divmod': divmod, 'round': round,
                         'isinstance': isinstance, 'map': map, 'repr': repr}

    def ev(self, n):
        auto = getattr(self, 'auto', None)
        if auto is not None and isinstance(n, ast.Attribute) and isinstance(n.value, ast.Name) and n.value.id == 'self' and isinstance(getattr(n, 'ctx', None), ast.Load) \
                and auto[0] and n.attr in auto[0] and getattr(self, 'depth', 0) < 4:
            try:
                return self._ev_inner(n)
            except Unsupported:
                # a @property of the owning class that the rule's model of `self` does not carry: computed from the model by interpreting the property
                fnode = auto[0][n.attr]
                decs = {ast.unparse(d_).split('.')[-1] for d_ in fnode.decorator_list}
                if not (decs & {'property', 'cached_property'}) or 'self' not in self.env:
                    raise
                sub = NumInterp({fnode.args.args[0].arg: self.env['self']}, call_hook=self.call_hook, attr_hook=self.attr_hook)
                sub.auto = auto
                sub.globals = getattr(self, 'globals', {})
                sub.builtins = self.builtins
                sub.depth = getattr(self, 'depth', 0) + 1
                return sub.call(fnode)
        if auto is None or not isinstance(n, ast.Call) or getattr(self, '_retrying', False):
            return self._ev_inner(n)
        try:
            return self._ev_inner(n)
        except Unsupported as first:
            # fallback only: what the rule's hooks and the closed vocabulary cannot evaluate is retried by following the call into the
            # owning class's own methods / the module-level repository function it names
            saved = (getattr(self, 'methods', None), getattr(self, 'resolver', None))
            self.methods, self.resolver = saved[0] or auto[0], saved[1] or auto[1]
            self._retrying = True
            try:
                return self._ev_inner(n)
            except Unsupported:
                raise first
            finally:
                self._retrying = False
                self.methods, self.resolver = saved

    def _ev_inner(self, n):
        if isinstance(n, ast.Name) and n.id not in self.env and n.id in getattr(self, 'globals', {}):
            return self.globals[n.id]          # module-level names the rule models (shared with the interpreters of followed helpers)
        if isinstance(n, ast.Name) and n.id not in self.env and n.id in self.builtins:
            return self.builtins[n.id]
        if isinstance(n, ast.Attribute) and isinstance(n.value, ast.Name) and n.value.id in ('np', 'numpy') and n.value.id not in self.env:
            if n.attr in self.npfuncs:
                return self.npfuncs[n.attr]
            raise Unsupported(f'numpy.{n.attr} not in the whitelist')
        if isinstance(n, ast.Attribute) and isinstance(n.value, ast.Attribute) and isinstance(n.value.value, ast.Name) and n.value.value.id in ('np', 'numpy') \
                and n.value.attr in ('bitwise_xor', 'bitwise_and', 'bitwise_or', 'logical_xor', 'logical_and', 'logical_or', 'add', 'multiply') and n.attr in ('reduce', 'accumulate') \
                and n.value.value.id not in self.env:
            return getattr(getattr(self.np, n.value.attr), n.attr)
        if isinstance(n, ast.Attribute) and isinstance(n.value, ast.Attribute) and isinstance(n.value.value, ast.Name) and n.value.value.id in ('np', 'numpy') \
                and n.value.attr == 'linalg' and n.value.value.id not in self.env:
            if n.attr in ('eigvals', 'eigvalsh', 'eig', 'eigh', 'norm', 'det', 'inv', 'matrix_power'):
                return getattr(self.np.linalg, n.attr)
            raise Unsupported(f'numpy.linalg.{n.attr} not in the whitelist')
        if isinstance(n, ast.Attribute) and isinstance(n.value, ast.Name) and n.value.id in self.mathfuncs and n.value.id not in self.env:
            if n.attr in self.mathfuncs[n.value.id]:
                return self.mathfuncs[n.value.id][n.attr]
            raise Unsupported(f'{n.value.id}.{n.attr} not in the whitelist')
        if isinstance(n, (ast.ListComp, ast.GeneratorExp)):
            return self._comp(n, 0, [])
        if isinstance(n, ast.SetComp):
            return set(self._comp(ast.ListComp(elt=n.elt, generators=n.generators), 0, []))
        if isinstance(n, ast.JoinedStr):
            parts = []
            for v in n.values:
                if isinstance(v, ast.Constant):
                    parts.append(str(v.value))
                elif isinstance(v, ast.FormattedValue):
                    val = self.ev(v.value)
                    if v.conversion == 114:
                        val = repr(val)
                    spec = self.ev(v.format_spec) if v.format_spec is not None else ''
                    parts.append(format(val, spec))
            return ''.join(parts)
        if isinstance(n, ast.Attribute) and isinstance(n.value, ast.Name) and n.value.id in self.stdlib and n.value.id not in self.env:
            return getattr(self.stdlib[n.value.id], n.attr)
        if isinstance(n, ast.Dict):
            out = {}
            for k, v in zip(n.keys, n.values):
                if k is None:
                    out.update(self.ev(v))
                else:
                    out[self.ev(k)] = self.ev(v)
            return out
        if isinstance(n, ast.DictComp):
            pairs = self._comp(ast.ListComp(elt=ast.Tuple(elts=[n.key, n.value], ctx=ast.Load()), generators=n.generators), 0, [])
            return dict(pairs)
        if isinstance(n, ast.Call):
            if self.call_hook is not None:          # the rule's own model of a call takes precedence over generic evaluation
                r = self.call_hook(n, self)
                if r is not NotImplemented:
                    return r
            if isinstance(n.func, ast.Attribute) and n.func.attr in ('conjugate', 'conj') and not n.args:
                v = self.ev(n.func.value)
                if isinstance(v, (int, float, complex)):
                    return complex(v).conjugate()
                if isinstance(v, self.np.ndarray):
                    return self.np.conj(v)
            if isinstance(n.func, ast.Name) and n.func.id == 'isinstance' and len(n.args) == 2 and 'isinstance' not in self.env:
                v = self.ev(n.args[0])
                tnodes = n.args[1].elts if isinstance(n.args[1], ast.Tuple) else [n.args[1]]
                import numbers as _numbers
                known = {'int': int, 'float': float, 'complex': complex, 'bool': bool, 'str': str, 'list': list, 'tuple': tuple, 'dict': dict,
                         'numbers.Number': _numbers.Number, 'numbers.Complex': _numbers.Complex, 'numbers.Real': _numbers.Real,
                         'numbers.Integral': _numbers.Integral, 'np.ndarray': self.np.ndarray, 'np.integer': self.np.integer,
                         'np.floating': self.np.floating, 'np.number': self.np.number}
                res = False
                for t in tnodes:
                    ts = ast.unparse(t)
                    if ts in known:
                        res = res or isinstance(v, known[ts])
                    elif ts.startswith('sympy.'):
                        if not isinstance(v, (int, float, complex, self.np.ndarray, self.np.number, list, tuple, dict, str, type(None))):
                            raise Unsupported(f'isinstance of non-numeric value against {ts}')
                    else:
                        raise Unsupported(f'isinstance against {ts}')
                return res
            if isinstance(n.func, ast.Attribute) and n.func.attr in ('join', 'split', 'rsplit', 'partition', 'rpartition', 'splitlines', 'startswith', 'endswith', 'strip', 'items', 'keys', 'values', 'get', 'index', 'count', 'upper', 'lower', 'format', 'replace',
                                                                         'removeprefix', 'removesuffix', 'reverse', 'extend', 'zfill', 'rjust', 'ljust', 'copy', 'tolist', 'pop', 'insert', 'remove', 'sort', 'clear'):
                try:
                    recv = self.ev(n.func.value)
                except Unsupported:
                    recv = None
                if isinstance(recv, (str, list, tuple, dict)) and hasattr(recv, n.func.attr):
                    args = [self.ev(a) for a in n.args]
                    kwargs = {k.arg: self.ev(k.value) for k in n.keywords if k.arg}
                    return getattr(recv, n.func.attr)(*args, **kwargs)
            if isinstance(n.func, ast.Attribute) and n.func.attr == 'append' and not (isinstance(n.func.value, ast.Name) and n.func.value.id in ('np', 'numpy')):
                recv = self.ev(n.func.value)
                if isinstance(recv, list):
                    recv.append(self.ev(n.args[0]))
                    return None
            # own-method following: `self.<helper>(...)` where the rule supplied the class's methods (an extracted private helper is
            # interpreted like the code it was extracted from)
            meths = getattr(self, 'methods', None)
            if meths and isinstance(n.func, ast.Attribute) and isinstance(n.func.value, ast.Name) and n.func.value.id in ('self', 'cls') \
                    and n.func.attr in meths and getattr(self, 'depth', 0) < 4 and 'self' in self.env:
                fnode = meths[n.func.attr]
                decs = {ast.unparse(d_) for d_ in fnode.decorator_list}
                pos = fnode.args.posonlyargs + fnode.args.args
                if 'staticmethod' not in decs:
                    pos = pos[1:]
                env = {} if 'staticmethod' in decs else {(fnode.args.posonlyargs + fnode.args.args)[0].arg: self.env['self']}
                dflt = fnode.args.defaults
                allpos = fnode.args.posonlyargs + fnode.args.args
                for i_, a_ in enumerate(allpos):
                    j_ = i_ - (len(allpos) - len(dflt))
                    if j_ >= 0:
                        env[a_.arg] = self.ev(dflt[j_])
                for a_, d_ in zip(fnode.args.kwonlyargs, fnode.args.kw_defaults):
                    if d_ is not None:
                        env[a_.arg] = self.ev(d_)
                for i_, a_ in enumerate(n.args):
                    env[pos[i_].arg] = self.ev(a_)
                for k_ in n.keywords:
                    env[k_.arg] = self.ev(k_.value)
                sub = NumInterp(env, call_hook=self.call_hook, attr_hook=self.attr_hook)
                sub.resolver = getattr(self, 'resolver', None)
                sub.methods = meths
                if getattr(self, '_retrying', False):
                    sub.auto, sub.methods, sub.resolver = self.auto, None, None
                sub.globals = getattr(self, 'globals', {})
                sub.builtins = self.builtins
                sub.depth = getattr(self, 'depth', 0) + 1
                return sub.call(fnode)
            try:
                f = self.ev(n.func)
            except Unsupported:
                f = None
            if f is None and getattr(self, 'resolver', None) is not None and getattr(self, 'depth', 0) < 4:
                # inter-procedural: a module-level helper function of the repository is interpreted, not called
                target = self.resolver(n)
                if target is not None:
                    fnode = target
                    params = [a.arg for a in fnode.args.posonlyargs + fnode.args.args + fnode.args.kwonlyargs]
                    env = {}
                    dflt = fnode.args.defaults
                    pos = fnode.args.posonlyargs + fnode.args.args
                    for i, a in enumerate(pos):
                        j = i - (len(pos) - len(dflt))
                        if j >= 0:
                            env[a.arg] = self.ev(dflt[j])
                    for a, d in zip(fnode.args.kwonlyargs, fnode.args.kw_defaults):
                        if d is not None:
                            env[a.arg] = self.ev(d)
                    for i, a in enumerate(n.args):
                        env[params[i]] = self.ev(a)
                    for k in n.keywords:
                        env[k.arg] = self.ev(k.value)
                    sub = NumInterp(env, call_hook=self.call_hook, attr_hook=self.attr_hook)
                    sub.resolver = self.resolver
                    sub.methods = getattr(self, 'methods', None)
                    if getattr(self, '_retrying', False):
                        sub.auto, sub.methods, sub.resolver = self.auto, None, None
                    sub.globals = getattr(self, 'globals', {})
                    sub.depth = getattr(self, 'depth', 0) + 1
                    return sub.call(fnode)
            if callable(f):
                args = []
                for a in n.args:
                    if isinstance(a, ast.Starred):
                        args.extend(list(self.ev(a.value)))
                    else:
                        args.append(self.ev(a))
                kw = {k.arg: self.ev(k.value) for k in n.keywords if k.arg and k.arg != 'dtype'}
                for k in n.keywords:
                    if k.arg is None:
                        kw.update(dict(self.ev(k.value)))
                return f(*args, **kw)
        if isinstance(n, ast.Subscript):
            v = self.ev(n.value)
            i = self.ev(n.slice)
            try:
                return v[i]
            except Exception as e:
                raise Unsupported(str(e))
        if isinstance(n, ast.Slice):
            return slice(self.ev(n.lower) if n.lower else None, self.ev(n.upper) if n.upper else None, self.ev(n.step) if n.step else None)
        if isinstance(n, ast.Attribute):
            if self.attr_hook is not None:
                r = self.attr_hook(n, self)
                if r is not NotImplemented:
                    return r
            v = self.ev(n.value)
            if isinstance(v, dict) and n.attr in v:
                return v[n.attr]
            if isinstance(v, self.np.ndarray) and n.attr in ('T', 'shape', 'ndim', 'size', 'dtype', 'real', 'imag', 'dot', 'reshape', 'conj', 'copy', 'astype', 'tolist', 'flatten', 'transpose', 'ravel', 'argmax', 'sum', 'max', 'min'):
                return getattr(v, n.attr)
            if isinstance(v, (int, float, complex)) and n.attr in ('real', 'imag'):
                return getattr(complex(v), n.attr)
            import fractions as _fr
            if isinstance(v, (_fr.Fraction, int)) and not isinstance(v, bool) and n.attr in ('numerator', 'denominator'):
                return getattr(v, n.attr)
            raise Unsupported(f'attribute {ast.unparse(n)}')
        return super().ev(n)

    def _comp(self, n, gi, acc):
        if gi == len(n.generators):
            acc.append(self.ev(n.elt))
            return acc
        g = n.generators[gi]
        for x in self.ev(g.iter):
            self.store(g.target, x)
            if all(self.ev(c) for c in g.ifs):
                self._comp(n, gi + 1, acc)
        return acc

    def run_stmt(self, st):
        if isinstance(st, ast.AugAssign):
            f = BIN.get(type(st.op))
            if f is None:
                raise Unsupported('augop')
            val = self.ev(st.value)
            t = st.target
            if isinstance(t, ast.Subscript):
                cont = self.ev(t.value)
                idx = self.ev(t.slice)
                try:
                    cont[idx] = f(cont[idx], val)
                except Exception as e:
                    raise Unsupported(f'augassign {ast.unparse(t)}: {e}')
                return
            cur = self.ev(_as_load(t))
            if isinstance(cur, self.np.ndarray):
                cur[...] = f(cur, val)      # numpy in-place semantics: the array object keeps its identity
                return
            self.store(t, f(cur, val))
            return
        super().run_stmt(st)

    def store(self, t, v):
        if isinstance(t, ast.Attribute):
            base = self.ev(t.value)
            if isinstance(base, dict):
                base[t.attr] = v
                return
            if getattr(type(base), '_fdx_settable', False):  # model objects of a rule that opt in to attribute stores
                setattr(base, t.attr, v)
                return
        if isinstance(t, ast.Subscript):
            cont = self.ev(t.value)
            idx = self.ev(t.slice)
            try:
                cont[idx] = v
            except Exception as e:
                raise Unsupported(f'store {ast.unparse(t)}: {e}')
            return
        super().store(t, v)


def _module_resolver(repo, mod, fn):
    from .core import FuncInfo

    def resolve(call):
        f = call.func
        d = None
        if isinstance(f, ast.Name):
            d = f.id
        elif isinstance(f, ast.Attribute):
            parts = []
            x = f
            while isinstance(x, ast.Attribute):
                parts.append(x.attr)
                x = x.value
            if isinstance(x, ast.Name):
                d = '.'.join([x.id] + parts[::-1])
        if not d:
            return None
        r = repo.resolve_in_func(mod, fn, d)
        if isinstance(r, FuncInfo) and r.cls is None and isinstance(r.node, ast.FunctionDef):
            return r.node
        return None
    return resolve


def follow_module(it, repo, mod, fn):
    if getattr(it, 'resolver', None) is None:
        it.resolver = _module_resolver(repo, mod, fn)
    return it


def follow(it, repo, ci, fn):
    """Let the interpreter `it` (created for method `fn` of class `ci`) follow calls of the class's own methods and of module-level
    repository functions instead of giving up on them, so that extracting a helper does not change what a rule can interpret."""
    it.methods = {}
    for c in reversed(repo.mro(ci)):
        it.methods.update(c.methods)

    if getattr(it, 'resolver', None) is None:
        it.resolver = _module_resolver(repo, ci.mod, fn)
    return it
