#!/usr/bin/env python3
"""Replay = print the recorded violation report (rule, construct, file:line) and re-run the
property's quick check against the current tree."""
import json, os, subprocess, sys
p = sys.argv[1]
d = json.load(open(p))
for v in d['violations']:
    print(f"{v['file']}:{v['line']}: [{v['rule']}] {v['key']}: {v['msg']}")
    print('   rule:', d['rules'].get(v['rule'], ''))
sys.exit(subprocess.call(['/venv/bin/python', os.path.join(os.path.dirname(os.path.abspath(__file__)), 'check.py'), d['property'], '--tier', 'quick']))
