"""Field-set extraction: which root fields of `self` a method reads / writes, normalised
through @property aliases and one level of helper calls on `self`."""
from __future__ import annotations

import ast
from typing import Dict, Optional, Set

from .core import ClassInfo, Repo, is_self_attr, walk_local


def norm_field(repo: Repo, ci: ClassInfo, name: str) -> str:
    """Map a public property name to its backing field when the property is a plain
    `return self._x` (follows at most 3 hops)."""
    for _ in range(3):
        a = repo.property_alias(ci, name)
        if a is None or a == name:
            break
        name = a
    return name


def self_reads(repo: Repo, ci: ClassInfo, fn: ast.AST, depth: int = 1, selfname: Optional[str] = None,
               _seen=None) -> Set[str]:
    """Root fields of self read in `fn` (Attribute loads `self.x`), alias-normalised.
    Calls `self.m(...)` where m is a method of the class (not a property) are followed
    `depth` levels; properties that are not plain aliases are followed as well."""
    if selfname is None:
        selfname = fn.args.args[0].arg if getattr(fn, 'args', None) and fn.args.args else 'self'
    _seen = _seen if _seen is not None else set()
    out: Set[str] = set()
    attr_bases = set()
    stored = set()
    for n in walk_local(fn):
        if isinstance(n, ast.Attribute) and isinstance(n.value, ast.Name) and n.value.id == selfname:
            attr_bases.add(id(n.value))
            if isinstance(n.ctx, ast.Store):
                stored.add(n.attr)
    for n in walk_local(fn):
        # identity / type uses of bare `self` do not read any field
        if isinstance(n, ast.Compare) and all(isinstance(o, (ast.Is, ast.IsNot)) for o in n.ops):
            for x in [n.left] + n.comparators:
                if isinstance(x, ast.Name):
                    attr_bases.add(id(x))
        if isinstance(n, ast.Call) and isinstance(n.func, ast.Name) and n.func.id in ('type', 'isinstance', 'id', 'super'):
            for x in n.args:
                if isinstance(x, ast.Name):
                    attr_bases.add(id(x))
    for n in walk_local(fn):
        # super().m(...)  -> the overridden method's reads
        if isinstance(n, ast.Attribute) and isinstance(n.value, ast.Call) \
                and isinstance(n.value.func, ast.Name) and n.value.func.id == 'super':
            n = ast.Call(func=n, args=[], keywords=[])
        if isinstance(n, ast.Call) and isinstance(n.func, ast.Attribute) and isinstance(n.func.value, ast.Call) \
                and isinstance(n.func.value.func, ast.Name) and n.func.value.func.id == 'super':
            owner = None
            for c in repo.mro(ci):
                if fn in c.methods.values():
                    owner = c
                    break
            mro = repo.mro(ci)
            start = mro.index(owner) + 1 if owner in mro else 1
            for b in mro[start:]:
                if n.func.attr in b.methods:
                    if (b.qual, n.func.attr) not in _seen:
                        _seen.add((b.qual, n.func.attr))
                        out |= self_reads(repo, ci, b.methods[n.func.attr], depth, None, _seen)
                    break
            continue
        if isinstance(n, ast.Name) and n.id == selfname and isinstance(n.ctx, ast.Load) and id(n) not in attr_bases:
            out.add('<self>')
            continue
        if isinstance(n, ast.Attribute) and isinstance(n.value, ast.Name) and n.value.id == selfname:
            if isinstance(n.ctx, ast.Store) or n.attr in stored:
                continue
            name = n.attr
            r = repo.find_method(ci, name)
            if r is not None:
                alias = repo.property_alias(ci, name)
                if alias is not None:
                    out.add(norm_field(repo, ci, alias))
                elif depth > 0 and (r[0].qual, name) not in _seen:
                    _seen.add((r[0].qual, name))
                    out |= self_reads(repo, ci, r[1], depth - 1, None, _seen)
                continue
            out.add(name)
    return out


def self_writes(fn: ast.AST, selfname: str = 'self') -> Dict[str, ast.AST]:
    """Fields of self stored (assigned / aug-assigned / deleted / annotated) in fn."""
    out: Dict[str, ast.AST] = {}
    for n in walk_local(fn):
        if isinstance(n, ast.Attribute) and isinstance(n.ctx, (ast.Store, ast.Del)) and \
                isinstance(n.value, ast.Name) and n.value.id == selfname:
            out.setdefault(n.attr, n)
        # object.__setattr__(self, 'x', v)
        if isinstance(n, ast.Call) and isinstance(n.func, ast.Attribute) and n.func.attr == '__setattr__' \
                and len(n.args) >= 2 and isinstance(n.args[0], ast.Name) and n.args[0].id == selfname \
                and isinstance(n.args[1], ast.Constant) and isinstance(n.args[1].value, str):
            out.setdefault(n.args[1].value, n)
    return out


def names_read(node: ast.AST) -> Set[str]:
    return {n.id for n in ast.walk(node) if isinstance(n, ast.Name) and isinstance(n.ctx, ast.Load)}


def _composite_slots(expr: ast.AST, dep: Dict[str, Set[str]], local_composites=None) -> Dict[str, str]:
    """When the stored value is a constructor-like call fed by two or more different parameters, each of them determines its own part of the
    composite: {param: slot} with slot = keyword name or positional index of the argument the parameter (alone) feeds."""
    if isinstance(expr, ast.Name) and local_composites and local_composites.get(expr.id) is not None:
        return local_composites[expr.id]
    if not isinstance(expr, ast.Call):
        return {}
    per_arg = []
    for i, a in enumerate(expr.args):
        per_arg.append((str(i), a))
    for k in expr.keywords:
        if k.arg:
            per_arg.append((k.arg, k.value))
    owners = {}
    for slot, a in per_arg:
        ps = set()
        for nm in names_read(a):
            ps |= dep.get(nm, set())
        if len(ps) == 1:
            owners.setdefault(next(iter(ps)), []).append(slot)
    if len(owners) < 2:
        return {}
    return {p: slots[0] for p, slots in owners.items() if len(slots) == 1}


def init_param_to_field(repo: Repo, ci: ClassInfo) -> Dict[str, Set[str]]:
    """For the class's __init__ (own or inherited): parameter -> set of self fields whose
    stored value depends on it (directly, or through single-assignment locals)."""
    r = repo.find_method(ci, '__init__')
    if r is None:
        return {}
    fn = r[1]
    params = [a.arg for a in fn.args.posonlyargs + fn.args.args[1:] + fn.args.kwonlyargs]
    if fn.args.vararg is not None:
        params.append(fn.args.vararg.arg)
    if fn.args.kwarg is not None:
        params.append(fn.args.kwarg.arg)
    # local -> params it depends on (iterate twice for chains)
    selfname_ = fn.args.args[0].arg if fn.args.args else 'self'
    dep: Dict[str, Set[str]] = {p: {p} for p in params}
    # default fills:  `if p is None: p = <derived from other params>`  do not make p's field depend on those params
    default_fill = set()
    for n in walk_local(fn, include_nested_funcs=False):
        if isinstance(n, ast.If):
            t = n.test
            names = set()
            for c in ast.walk(t):
                if isinstance(c, ast.Compare) and isinstance(c.left, ast.Name) and len(c.ops) == 1 and isinstance(c.ops[0], ast.Is) \
                        and isinstance(c.comparators[0], ast.Constant) and c.comparators[0].value is None:
                    names.add(c.left.id)
                if isinstance(c, ast.UnaryOp) and isinstance(c.op, ast.Not) and isinstance(c.operand, ast.Name):
                    names.add(c.operand.id)
            for st in n.body:
                if isinstance(st, ast.Assign) and len(st.targets) == 1 and isinstance(st.targets[0], ast.Name) and st.targets[0].id in names \
                        and st.targets[0].id in params:
                    default_fill.add(id(st))
    for _ in range(3):
        for n in walk_local(fn, include_nested_funcs=False):
            tgt = None
            val = None
            if isinstance(n, ast.Assign):
                if id(n) in default_fill:
                    continue
                val = n.value
                tgts = n.targets
            elif isinstance(n, ast.AnnAssign) and n.value is not None:
                val = n.value
                tgts = [n.target]
            elif isinstance(n, ast.AugAssign):
                val = n.value
                tgts = [n.target]
            elif isinstance(n, ast.NamedExpr):
                val = n.value
                tgts = [n.target]
            elif isinstance(n, (ast.For, ast.AsyncFor)):
                val = n.iter
                tgts = [n.target]
            elif isinstance(n, ast.comprehension):
                val = n.iter
                tgts = [n.target]
            elif isinstance(n, ast.withitem) and n.optional_vars is not None:
                val = n.context_expr
                tgts = [n.optional_vars]
            elif isinstance(n, ast.Expr) and isinstance(n.value, ast.Call) and isinstance(n.value.func, ast.Attribute) \
                    and isinstance(n.value.func.value, ast.Name) and (n.value.args or n.value.keywords):
                # local mutated through a method call:  x.add(a) / x.update(b) / g.add_edges_from(c)
                val = ast.Tuple(elts=list(n.value.args) + [k.value for k in n.value.keywords], ctx=ast.Load())
                tgts = [n.value.func.value]
            elif isinstance(n, ast.Assign) and False:
                continue
            else:
                continue
            used = set()
            for nm in names_read(val):
                used |= dep.get(nm, set())
            for t in tgts:
                for tn in ast.walk(t):
                    if isinstance(tn, ast.Name) and tn.id != selfname_:
                        dep.setdefault(tn.id, set()).update(used)
    out: Dict[str, Set[str]] = {p: set() for p in params}
    selfname = fn.args.args[0].arg
    # locals bound once to a composite built from several parameters keep their slot structure
    local_composites: Dict[str, Dict[str, str]] = {}
    counts: Dict[str, int] = {}
    for n in walk_local(fn, include_nested_funcs=False):
        if isinstance(n, ast.Assign) and len(n.targets) == 1 and isinstance(n.targets[0], ast.Name):
            counts[n.targets[0].id] = counts.get(n.targets[0].id, 0) + 1
    for n in walk_local(fn, include_nested_funcs=False):
        if isinstance(n, ast.Assign) and len(n.targets) == 1 and isinstance(n.targets[0], ast.Name) and counts.get(n.targets[0].id) == 1 \
                and n.targets[0].id not in params and isinstance(n.value, ast.Call):
            sl = _composite_slots(n.value, dep)
            if sl:
                local_composites[n.targets[0].id] = sl
    for n in walk_local(fn, include_nested_funcs=False):
        val = None
        tgts = []
        if isinstance(n, ast.Assign):
            val, tgts = n.value, n.targets
        elif isinstance(n, ast.AnnAssign) and n.value is not None:
            val, tgts = n.value, [n.target]
        elif isinstance(n, ast.Call) and isinstance(n.func, ast.Attribute) and n.func.attr == '__setattr__' \
                and len(n.args) == 3 and isinstance(n.args[1], ast.Constant):
            used = set()
            for nm in names_read(n.args[2]):
                used |= dep.get(nm, set())
            for p in used:
                if p in out:
                    out[p].add(n.args[1].value)
            continue
        else:
            continue
        for t in tgts:
            for tn in ast.walk(t):
                if is_self_attr(tn, selfname=selfname) and isinstance(tn.ctx, ast.Store):
                    used = set()
                    for nm in names_read(val):
                        used |= dep.get(nm, set())
                    for p in used:
                        if p in out:
                            out[p].add(tn.attr)
                    for p, slot in _composite_slots(val, dep, local_composites).items():
                        if p in out:
                            out[p].add(f'{tn.attr}.{slot}')
    # super().__init__(a=b, ...) forwards: map through the base class
    for c in ast.walk(fn):
        if isinstance(c, ast.Call) and isinstance(c.func, ast.Attribute) and c.func.attr == '__init__' \
                and isinstance(c.func.value, ast.Call) and isinstance(c.func.value.func, ast.Name) \
                and c.func.value.func.id == 'super':
            owner = r[0]
            mro = repo.mro(owner)
            base_init = None
            for b in mro[1:]:
                if '__init__' in b.methods:
                    base_init = (b, b.methods['__init__'])
                    break
            if base_init is None:
                continue
            bmap = init_param_to_field(repo, base_init[0])
            bparams = [a.arg for a in base_init[1].args.posonlyargs + base_init[1].args.args[1:]]
            bound = {}
            for i, a in enumerate(c.args):
                if i < len(bparams):
                    bound[bparams[i]] = a
            for k in c.keywords:
                if k.arg:
                    bound[k.arg] = k.value
            for bp, expr in bound.items():
                used = set()
                for nm in names_read(expr):
                    used |= dep.get(nm, set())
                for p in used:
                    if p in out:
                        out[p] |= bmap.get(bp, set())
                for p, slot in _composite_slots(expr, dep, local_composites).items():
                    if p in out:
                        out[p] |= {f'{f}.{slot}' for f in bmap.get(bp, set()) if '.' not in f}
    return out
