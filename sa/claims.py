# Per-property claim table used by gen_manifest.py (executed with claim()/na() in scope).
claim('C10', 'ast field-set coherence (parameter-protocol triple, rebuild completeness, sweep field coherence) + required-guard rules',
      'C10.a parameter triple completeness/field agreement; C10.b _resolve_parameters_ rebuild completeness; '
      'C10.c flag-guarded identity short-cuts; C10.d sweep enumeration/equality/hash/JSON field coherence; '
      'C01.b sweep prefix excludes parameterized ops',
      'value_of numerics, sweep arithmetic, flatten_expressions, any numerical equality')
na('C15', 'every clause is a floating-point linear-algebra identity over continuous inputs (KAK, bidiagonalisation, '
          'Shannon/CS synthesis, gate counts); the code has no pairing/table/guard structure whose violation is '
          'decidable from its shape, so no sound static necessary condition exists in this family')
