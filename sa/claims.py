# Per-property claim table used by gen_manifest.py (executed with claim()/na() in scope).
claim('C10', 'ast field-set coherence (parameter-protocol triple, rebuild completeness, sweep field coherence) + required-guard rules',
      'C10.a parameter triple completeness/field agreement; C10.b _resolve_parameters_ rebuild completeness; '
      'C10.c flag-guarded identity short-cuts; C10.d sweep enumeration/equality/hash/JSON field coherence; '
      'C01.b sweep prefix excludes parameterized ops',
      'value_of numerics, sweep arithmetic, flatten_expressions, any numerical equality')
na('C15', 'every clause is a floating-point linear-algebra identity over continuous inputs (KAK, bidiagonalisation, '
          'Shannon/CS synthesis, gate counts); the code has no pairing/table/guard structure whose violation is '
          'decidable from its shape, so no sound static necessary condition exists in this family')
claim('C11', 'ast writer/reader/constructor/equality field-set coherence over the JSON registries + corpus key scan + who-may-write on equality fields',
      'C11.a registry keys resolve and match cirq_type; C11.b constructor coverage of JSON keys and stored state; '
      'C11.c _from_json_dict_ accepts/uses written keys; C11.d equality fields written, hash fields compared; '
      'C11.e memoised hashes dropped by __getstate__; C11.f every cirq_type in the stored corpus resolvable; '
      'C11.h value_equality cache/pickle pairing and no late writes to equality fields',
      'value-level equality after round trip, numpy/pandas/sympy payload encodings, repr evaluation, qid ordering')
claim('C12', 'ast field-set coherence of CircuitOperation (replace/eq/hash/JSON/repr), builder-through-replace rule, who-may-write, key-protocol child-coverage',
      'C12.a no CircuitOperation field lost by replace/equality/hash/JSON/repr; C12.b every with_*/protocol method builds through replace(); '
      'C12.c fields written only in __init__; C12.d key protocols of Moment/AbstractCircuit/wrappers visit every child via the protocol '
      'function and classically-controlled ops cover conditions and sub-operation; C12.e parameter triple of CircuitOperation',
      'equality with the unrolled circuit, key scoping semantics, repeat_until evaluation')
claim('C16', 'ast writer/reader/schema table agreement (isinstance chain vs oneof chain vs program.proto), attribute->keyword flow, dispatch-order and constants-table pairing rules',
      'C16.a gate kinds: written fields in schema, written sub-fields read and read sub-fields written, class written == class rebuilt, '
      'attribute->same keyword, unknown kinds raise; C16.b no class shadowed by a base class in dispatch; C16.c tag/sweep/arg/device '
      'writer-reader tables agree; C16.d constants append paired with index registration under a failed lookup; C16.d2 constants keyed '
      'by the domain object; C16.e/e2 attribute coverage of writer and reader',
      'float32 rounding, bit-packing arithmetic of results, unit conversion arithmetic of sweeps, device-spec semantics, v1 format')
claim('C05', 'path-sensitive typestate analysis (cache / placement-cache states per circuit variable, with method summaries), reaching definitions, who-may-write and sibling-coherence rules over circuit.py / moment.py / frozen_circuit.py',
      'C05.a no path leaves a Circuit summary cache stale; C05.b _mutated resets every lazily filled field; C05.c no path leaves a live placement cache '
      'out of step with the moments (self and locally built circuits); C05.e one conflict relation at all five sites and complete index update; '
      'C05.f Moment indexes written together with combined key caches; C05.g who-may-write circuit/moment storage (foreign stores must be followed by _mutated); '
      'C05.h batch edits all-or-nothing',
      'that insertion indices equal what each strategy documents, zip/concat_ragged/factorize arithmetic, query results on consistent data')
claim('C06', 'path-sensitive alias/effect analysis with callee summaries (input-not-mutated), taint of context options to guards/arguments, recursion-forwarding and sibling-union coherence rules',
      'C06.a no transformer-package function mutates a circuit argument; C06.b/c every @transformer consults or forwards tags_to_ignore and deep '
      '(reasoned table for pure adders/filters); C06.d primitive call sites pass context-derived options; C06.e recursive calls forward all '
      'options; C06.h component merging unions every summary field',
      'semantic equivalence of any rewrite (unitary / outcome distribution), commutation logic inside individual transformers')
claim('C20', 'must-precede / dominance rules on the retry and dispatch loops, special-case chain extraction against a reference retry table, helper-request field provenance',
      'C20.a execution loop ordering (fresh id -> subscribe -> send -> await) and its retry/cancel/response arms; C20.b demultiplexer pop-then-complete, '
      'not-done guards, duplicate rejection, monotone ids; C20.c every stream failure arm wakes the request iterator and informs all waiters; '
      'C20.d retry table and helper requests; C20.e collector spawn guards, counter pairing, single delivery',
      'schedule-universal delivery (needs the interleavings themselves), timeouts/backoff, behaviour of gRPC and duet')
claim('C07', 'required-guard / quantifier-form analysis of validators (dominating atoms of raise sites), must-follow pairing in the router, option-coherence of target gatesets',
      'C07.a every device validator has gateset, universally quantified qubit and (where applicable) pair/distance rejection and chains to super(); '
      'C07.b router emits two-qubit ops only under the adjacency test, applies every emitted swap to the mapping, both maps exchanged together after '
      'the adjacency check; C07.c compile loop keeps exactly what the gateset validates, raises when stuck, stage order and context forwarding; '
      'C07.d gateset options are used and part of the value',
      'unitary equivalence of compiled/routed circuits, that decomposers only emit accepted gates, routing optimality')
claim('C13', 'finite-domain transfer-function extraction (my AST evaluator over the complete bit domain) against Pauli-conjugation tables computed from textbook matrices; dispatch-chain and exponent-classification agreement',
      'C13.a every CliffordTableau update rule and exponent class == conjugation table of the textbook gate (exhaustive); C13.b rowsum phase function and row decoder; '
      'C13.c dispatcher calls the tested gate\'s rule with axes/exponent/global shift, SWAP = three CX; C13.d tableau and CH-form classify every exponent alike',
      'CH-form update algebra and amplitudes, measurement/rowsum loops, CliffordGate group laws, from_unitary, decompositions')
claim('C14', 'finite-domain transfer-function extraction of the single-qubit Pauli product/phase functions against matrix products; literal-table agreement of encodings and eigenprojectors; sign-convention coherence of entry points',
      'C14.a Pauli.third/relative_index/phased_pauli_product, MutablePauliString._imul_atom_helper and the dense per-term phase == Pauli group table (exhaustive); '
      'C14.b integer/char encodings agree across classes; C14.c PAULI_EIGEN_MAP projectors; C14.e in-place multiply entry points use the side their name says',
      'multi-qubit bookkeeping, PauliSum arithmetic, conjugation by Cliffords, expectation values, phasor decompositions')
claim('C03', 'literal-table extraction (constant folding; loop-built qudit tables through my AST evaluator) checked against projector axioms and textbook matrices held in the checker; named-constant and rotation-helper table agreement',
      'C03.a/b eigen-component tables of 15 gate families (+ qutrit X/Z) are complete orthogonal projectors encoding the textbook matrix; C03.c 28 named constants are the '
      'documented family with documented arguments; C03.e Rx/Ry/Rz radians<->half-turn conversion and global shift, Sycamore/Willow angles',
      'closed forms depending on runtime parameters (FSim, PhasedX(Z), channels, QFT, diagonal, arithmetic, IonQ native gates), EigenGate._unitary_ consuming the tables')
claim('C08', 'required-guard analysis of controlled() short-cuts, finite probe extraction of _has_stabilizer_effect_ against Clifford test on extracted eigen tables, self-reconstruction completeness',
      'C08.a controlled() overrides pin every dropped matrix-determining field; C08.b a True of _has_stabilizer_effect_ implies the gate matrix is Clifford (probe exponents); '
      'C08.c/c2 rebuilds pass every stored field, EigenGate subclasses with extra parameters override _with_exponent; C08.d exact/approximate equality fields agree',
      'commutes / approx_eq / equal_up_to_global_phase numerics, trace-distance bounds, phase_by, ControlledGate matrices, equality canonicalisation of control values')
claim('C04', 'finite-domain interpretation of in-place kernels against matrices from the extracted eigen tables (all basis inputs), return/give-up discipline, guard coherence of has-X vs X, wrapper delegation completeness',
      'C04.b _apply_unitary_ of 12 table-defined families == their matrix for probe exponents/shifts on every basis state, give-up leaves target untouched; C04.b2 kernel return discipline; '
      'C04.a has-X / X guard coherence; C04.d wrappers read the wrapped object in each protocol method and forward every parameter when delegating',
      'decomposition/Kraus/mixture/superoperator agreement, act_on for each simulator, kernels of parameter-dependent gates and ControlledGate')
claim('C19', 'finite probe interpretation of _qasm_ methods (my AST evaluator) with the emitted text read by a qelib1/stdgates reference held in the checker, compared with the extracted gate matrix; vocabulary/arity table agreement; ordering rules',
      'C19.a emitted QASM of 14 table-defined gate families (+Rx/Ry/Rz, controlled X/Y/Z/H) == the gate matrix up to global phase for probe and source-derived exponents; '
      'C19.b every mnemonic exists with that parameter/operand count, operands distinct, angles as half turns; C19.c version validated before formatting, writer never drops an operation, '
      'measurement inversion lines symmetric',
      'QasmUGate/QasmTwoQubitGate fallback numerics, register layout and bit order, classical conditions, printed precision')
claim('C01', 'must-follow / exchange-order rules on the state-vector buffer discipline, required guard on the sweep prefix, kernel==matrix finite-domain interpretation (shared with C04.b)',
      'C01.a every write to the scratch buffer is committed, the tensor returned by apply_unitary is the one committed, exchange precedes rebinding, create() copies an aliased input; '
      'C01.b sweep prefix excludes parameterized operations; C01.c per-repetition/per-point copies; C01.k in-place kernels of 12 table-defined gate families == their matrices',
      'numerical equality of whole simulations with the ordered matrix product, axis/permutation arithmetic, product-state factor/kron, dtype tolerance')
claim('C02', 'effect analysis of sample(), in-place-mutation vs copy() field coherence, loop/copy dominance in the run loop, def-use taint of the recorded value, finite-domain extraction of the product-state column order, rebuild completeness of measurement gates / conditions',
      'C02.a sampling is side-effect free; C02.b copy() duplicates every field mutated in place; C02.c each repetition/sweep point starts from a copy and the sample-many path is guarded; '
      'C02.e recorded digits depend on measured bits, confusion map and invert mask under the given key; C02.g product-state sample column order (all cases of 3 qubits); C02.f measurement gates/conditions keep all fields when rebuilt',
      'outcome probabilities, collapse and renormalisation arithmetic, stabilizer measurement, confusion sampling arithmetic')
claim('C09', 'must-follow / exchange-order rules on density-matrix and trajectory kernels, argument-provenance coherence of the two noise entry points, copy isolation',
      'C09.a density-matrix/state-vector buffer commit discipline incl. copying an aliased initial state; C09.b trajectories renormalised before commit, mixture drawn with its own probabilities; '
      'C09.c with_noise and the simulators call noisy_moments with the circuit\'s own sorted qubits; C09.e copy isolation',
      'Kraus completeness / trace preservation, representation conversions, axis arithmetic, probability tolerances in channel constructors')
claim('C17', 'finite probe interpretation of the IonQ serializer handlers with the emitted dictionaries read by IonQ\'s documented vocabulary held in the checker; dispatch/handler table agreement; raise-before-dispatch rules; AQT writer/reader positional-layout agreement',
      'C17.a IonQ QIS payloads of 10 dispatched families == the Cirq gate up to global phase (probe + source-derived exponents), native gates pass their parameters under the documented names; '
      'C17.b gate-less/parameterized operations rejected before dispatch, unhandled operations raise, validation precedes serialization; C17.c dispatch->handler->mnemonic agreement; '
      'C17.d AQT op-string table and positional layout shared by writer, legacy reader and simulator',
      'result decoding / bit order, pauliexp semantics, Pasqal payloads, job and service plumbing')
claim('C18', 'argument-provenance (def-use) analysis of sampler entry points down to the run_sweep hook, wrapper forwarding rules, writer/reader field agreement of packed result records',
      'C18.a every Sampler convenience entry point reaches run_sweep(_async) with program/params/repetitions derived from its own arguments and returns the hook\'s result; '
      'C18.b ResultDict packed-record fields == _unpack_digits parameters, binary flag provenance and encoding agreement, EngineResult job_id; C18.c wrapping samplers forward all arguments and validate first',
      'endianness / shape / mixed-radix digit conversions, histograms, data frames, string forms, concatenation')

# ---- rules added later (see DESIGN.md section 3 for the full list per property) -------------------------------------------
more('C01', 'guard interpretation of the product-state SWAP shortcut on probe exponents; position taint on the classical simulator basis list',
     'C01.d the relabelling shortcut is taken only for gates that are exactly SWAP; C01.e code that special-cases controlled gates consults control_values; '
     'C01.f every basis[k] of the classical simulator is indexed by a position its own qubits map to')
more('C02', 'statement-order rule on the two recording paths, nested-mutation copy rule, interpretation of the Pauli-measurement decomposition over all masks',
     'C02.h confusion map applied before the invert mask on the fast path and the per-repetition path; C02.b2 the classical store copies its per-key lists; '
     'C02.i PauliMeasurementGate decomposes as V^-1 . measure . V with V P V^dag = Z (all masks, <=3 qubits)',
     'outcome probabilities, collapse and renormalisation arithmetic, confusion sampling arithmetic')
more('C04', 'dominance rule on the apply_unitary protocol (no give-up after a partial in-place sequence; defer vs refuse)',
     'C04.b3 apply_unitaries on the caller args only after all operations are known to be unitary, a missing decomposition defers to the next strategy; C04.c decompositions == matrices')
more('C05', 'cache-dependency coherence of derived circuits', 'C05.i a circuit built from another inherits a memoised summary only if no field it is computed from changed')
more('C06', 'required isinstance guard where measurement semantics justify a rewrite; must-pass-through (every path of a rebuild loop re-emits the operation) with a tabled, re-checked set of drop exits',
     'C06.i facts collected under is_measurement(op) to alter other operations also require MeasurementGate; C06.j loops that rebuild a moment/circuit operation by operation carry every operation over or raise')
more('C07', 'interpretation of the Pasqal distance function and of the Sycamore known-gate dispatcher on model values',
     'C07.f device distance == Euclidean distance for every qubit kind; C07.g tabulated Sycamore decompositions only for exponents equal to the tabulated gate up to phase; '
     'C07.e body-for-op substitution guarded by the transformer\'s own tag')
more('C08', 'equality-completeness coherence, commutes soundness rule, interpretation of trace-distance bounds against exact values, repository-wide effect rules (discarded value, freshness of foreign private stores, impossible sign test)',
     'C08.d2 equality covers every stored constructor parameter; C08.e no _commutes_ True from phase-blind tableau equality (1 known finding); C08.f every _trace_distance_bound_ override, '
     'controlled wrappers and the helper >= the exact maximum trace distance; C08.i no discarded result of a value method; C08.j private fields of another object written only on fresh objects; '
     'C08.k no sign test after abs()',
     'approx_eq / equal_up_to_global_phase numerics, phase_by, ControlledGate matrices, equality canonicalisation of control values')
more('C10', 'def-use flow of parameter fields into calls that receive the resolver', 'C10.a2 every parameter-carrying field is actually handed to the resolver; C10.f resolver composition order; C10.g flattened symbols')
more('C11', 'lossless-writer and equality-completeness coherence',
     'C11.d3 the value written under a key is not a constant arm, half of a mapping or a re-ordered sequence; C11.i equality covers every stored constructor parameter')
more('C12', 'aspect-coverage coherence, sign-applied-once rule, applied-flow sibling agreement, interpretation of multi-key remapping on a model condition, statement-order rule',
     'C12.f binding context on rescoping; C12.g conditions rebuilt completely; C12.h every behaviour protocol reads every field that changes that aspect; C12.i sign of repetitions applied once; '
     'C12.j simultaneous key substitution; C12.k an operation cannot satisfy its own control; key-rewriting methods of one class rewrite the same children')
more('C13', 'interpretation of _measure/_rowsum against a reference Aaronson-Gottesman tableau in the checker (all 2-qubit tableaux reachable with <=3 gates, both random bits, two-step histories); permutation-direction coherence',
     'C13.e CH-form copy/reindex carry every array and gather in one direction; C13.f _pad_tableau keeps the order of axes; C13.g stabilizer measurement == reference algorithm',
     'CH-form update algebra and amplitudes, CliffordGate group laws, from_unitary, decompositions')
more('C14', 'field/flow coherence of the Pauli classes, interpretation of the power-gate shortcut and of the phasor decomposition over all masks',
     'C14.f in-place conjugation can shrink support and updates the sign; C14.g LinearDict arithmetic cleans with atol=0; C14.h rebuild completeness; C14.i conversions carry the coefficient; '
     'C14.j X/Y/Z power-gate interpretation accounts for global_shift; C14.k PauliStringPhasorGate decomposition == exp(i pi (t- P- + t+ P+)) for every mask on <=3 qubits',
     'multi-qubit PauliSum arithmetic, conjugation by Cliffords, expectation values')
more('C16', 'truthiness-shortcut rules on readers, field coverage of the sub-circuit serializer, schema-typed taint of repeated proto fields into constructors',
     'C16.f x or c only with the zero of the type, a branch on field F uses F; C16.g every CircuitOperation field written or refused and read back, ids arm not reachable with negative repetitions; '
     'C16.h no live repeated proto container is stored in a deserialized value')
more('C17', 'interpretation of metadata chunking and pauliexp', 'C17.e measurement metadata chunks lossless, pauliexp operator and coefficients')
more('C18', 'type-flow rule on integer accumulators, interpretation of the digit conversions over all small mixed radices and 70-position inputs, additive-accumulation rule, axis-label abstract interpretation of record arrays',
     'C18.d digit folds keep a Python-int accumulator; C18.e the four big-endian conversions compute the positional value and are mutual inverses; C18.f histogram accumulation additive; '
     'C18.g record arrays are (repetitions, instances, qubits) at every conversion site',
     'data frames, string forms, bit packing arithmetic of _pack_digits, caller-supplied fold functions')
more('C19', 'uses-all-arguments rule on entry points, probe interpretation of QasmUGate and the KAK core',
     'C19.d KAK core and creg width; C19.e entry points hand on every argument; QasmUGate emits its own angles')
more('C20', 'lexical-scope rule on the concurrency limiter', 'C20.f job results awaited inside the limiter')
more('C03', 'interpretation of parametric closed forms at probe parameters', 'C03.f GPI/GPI2/MS/ZZ, FSim, PhasedFSim, PhasedXZ closed forms == reference matrices')
more('C09', 'flow rule on trajectory renormalisation', 'C09.b renormalise by the sampled branch norm, draw by subtracting branch weights from a uniform draw')

more('C02', 'parameter taint: a seed parameter is never handed raw to a call inside a loop', 'C02.k one generator per call (integer seeds do not restart the stream per axis / factor / measurement)')
more('C13', 'parameter taint on the seed of measure()', 'C13.h both stabilizer representations draw every measured axis from one generator')
more('C05', 'path rule on one-shot iterable parameters', 'C05.j an OP_TREE / Iterable argument already flattened into a local is not consumed again')
more('C11', 'effect rule on module-level containers', 'C11.j the JSON / equality machinery keeps no state between calls (tabled import-time registries aside)')
more('C16', 'effect rule on module-level containers', 'C16.i converters keep no state between calls')
more('C17', 'effect rule on module-level containers', 'C17.f vendor converters keep no state between calls')
more('C20', 'must-pass-through on the cancellation arm, zero-preserving defaults', 'C20.a(+) the cancel RPC is sent on every path of the cancellation arm that has a request in flight; C20.g budgets are not defaulted with `x or <non-zero>`')

more('C01', 'dependence rule on the merged product state', 'C01.g every merged product state is built from the zero-qubit factor that carries the global phase')
more('C02', 'required guard on unchecked factoring', 'C02.j sub-states are split without validation only after computational-basis measurement / reset')
more('C04', 'interpretation of GlobalPhaseGate.controlled on model control lists', 'C04.e the control turned into the Z target is the tested last one; the others are handed on in order')
more('C06', 'must-pass-through on rebuild loops, lost-update ordering rule, tracker invalidation on every callback path',
     'C06.j operation conservation with tabled, re-checked drop exits; C06.k accumulators shared with nested helpers are read out after the last write; C06.l eject_z tracker invalidated on every path')
more('C08', 'interpretation of PhasedXZGate._canonical, decorator-coherence rule on value_equality, dimension-awareness rule',
     'C08.l canonical form keeps the matrix up to phase; C08.m mutable value-equality classes own their (uncached) getters; C08.n qudit-capable gates test their dimension before handing out qubit gates; C08.f ParallelGate bound')
more('C09', 'call-site rule on part-circuit iterations, per-qubit bookkeeping, rescaling of integer initial states, exactly-once ordering of noise and deferral, order-independent reductions',
     'C09.c (reworked) the noise hook sees the qubits of the whole program; C09.f measured qubits tracked per qubit; C09.g integer initial state rescaled for ancillas; C09.h noise once, before deferral; C09.i order-independent reductions in noise models')
more('C11', 'who-may-use rule on byte-level identity, interpretation of the MeasurementKey string round trip',
     'C11.k tobytes()/id() in hash/eq only at tabled pinned-dtype sites; C11.l parse_serialized(str(key)) rebuilds name and path (depth 0-4)')
more('C12', 'interpretation of _with_rescoped_keys_ over all subsets of scopes and of with_qubit_mapping over pairs of model maps',
     'C12.l control keys bind to the innermost enclosing measurement; C12.m qubit maps compose')
more('C14', 'coherence rule on aggregations over all terms', 'C14.l sums over the terms of a linear combination filter on the coefficient only')
more('C16', 'schema-typed writer/reader rules',
     'C16.j numeric fields not written under a truthiness test; C16.k reader guards admit the helper range; C16.l dedupe keys cover moment tags (1 known finding); C16.m tags in written order; C16.n unset string maps to the None default')
more('C17', 'pairing rule on sampled outcomes', 'C17.g outcomes and weights stay paired up to choice(p=...)')
more('C18', 'flattening-order table', 'C18.h result storage flattens and rebuilds in index order only')
more('C19', 'interpretation of PhasedXZGate._qasm_, of ClassicallyControlledOperation._qasm_ and of SympyCondition._qasm_ on model values',
     'C19.f PhasedXZ export == Z^z Z^a X^x Z^-a up to phase; C19.g every statement of a conditioned operation carries the condition; C19.h condition constants in register bit order, measured qubit i in bit i')

# round 4/5: general rules on the functions attributed to each property (sa/props/general.py)
for _pid in ('C01', 'C02', 'C03', 'C04', 'C05', 'C06', 'C07', 'C08', 'C09', 'C10', 'C11', 'C12', 'C13', 'C14', 'C16', 'C17', 'C18', 'C19', 'C20'):
    more(_pid, 'general sibling-agreement / option-forwarding / ordered-pairing / presence-vs-truthiness rules over the functions attributed to the property (name hints, anchors, directory owner)',
         f'{_pid}.z_fwd sibling calls in exclusive branches forward the same parameters; {_pid}.z_drop no wrapper swallows an option its callee accepts; '
         f'{_pid}.z_pair positional pairing only over ordered collections, enumerate-index only on data in the same order; {_pid}.z_get presence of a key is not decided by truthiness of the value')
more('C07', 'annotation-driven argument rule', 'C07.e (generalised) a value handed to a callable annotated to receive the CircuitOperation of a merged component is a fresh wrapper or guarded by the transformer\'s own tag')

# round 5 (session 3): rules from round-4/5 misses and from defects reported by the round-5 reviewers
more('C01', 'dimension-aware recognition of X/Z power gates in simulator code; path-sensitive (strong-update) dependence on the phase carrier',
     'C01.j simulator code that recognises XPowGate/ZPowGate by class looks at the dimension; C01.g (reworked) every path to a return of create_merged_state carries the zero-qubit factor')
more('C02', 'index discipline on per-key record lists; who-may-read rule on the latest-record view',
     'C02.l a single record picked for a repeated key is the latest (-1); C02.m samplers build run() results from all records, never from log_of_measurement_results; '
     'C02.b (extended) in-place mutation through aliases of self (args = self if inplace else copy.copy(self)) counts')
more('C03', 'closed forms interpreted through the constructor', 'C03.f (extended) the object is built by interpreting __init__, so canonicalisation applied there is covered; PhaseGradientGate added')
more('C04', 'required isinstance guard on representation-dependent iteration; both-give-up-values rule in cirq.protocols',
     'C04.g stored control values are iterated / indexed only when known to be a ProductOfSums; C04.h results of _unitary_/_mixture_/_apply_unitary_ are excluded for None and NotImplemented before use')
more('C05', 'sibling coverage of control keys; running maximum per control key',
     'C05.k _control_keys_ of every wrapping operation covers the children whose keys the class rewrites; C05.l placement bookkeeping keeps the latest reader per control key')
more('C06', 'dimension-aware recognition in transformers; running maximum per control key in placement bookkeeping',
     'C06.p transformers that recognise X/Z power gates by class look at the dimension; C06.q control-key entries are running maxima; C06.n accepts the running maximum')
more('C07', 'dependence-based body-for-operation rule incl. vendor gatesets, key-aware placement query, nested pair test',
     'C07.e (reworked) `<untagged>.circuit` consumed in place of the operation needs the own-tag test or the plain-wrapper test; C07.h scheduling uses earliest_available_moment, qubit-only '
     'queries need a key test in the same decision; C07.a (extended) a validator whose gateset looks inside sub-circuits applies its pair test inside them too')
more('C08', 'period soundness by interpretation; dimension-aware recognition; control model in the controlled-wrapper bound',
     'C08.o _period() of PhasedXPowGate and the EigenGate helper return multiples of every eigenphase period; C08.p recognition of X/Z power gates by class is dimension-aware or tabled; '
     'C08.f (extended) ControlledOperation/ControlledGate bound interpreted with a qutrit control model')
more('C09', 'no early exit / repeated-key rules on noise models',
     'C09.j noise models look at every operation of a moment; C09.k measurements set aside by key keep every measurement of a repeated key; C09.c accepts the noise-only keyword dict')
more('C10', 'holder rule on the parameter protocols', 'C10.i every class whose constructor accepts a symbolic-capable value implements the parameter triple')
more('C11', 'value-keyed sharing tables; reader construction discipline',
     'C11.m writer memo / constants tables are never keyed by hash(obj); C11.n every _from_json_dict_ builds with cls(...), not through a method of a decoded part')
more('C12', 'sibling coverage of control keys; mapped-circuit discipline of terminal queries',
     'C12.o _control_keys_ covers rewritten children; C12.p are_all/any_matches_terminal read the body of a CircuitOperation only through mapped_circuit()')
more('C13', 'memoised hash on mutable classes (1 known finding); unitary guard of from_op_list; qubit routing of state updates in _act_on_',
     'C13.j no class with in-place mutators memoises __hash__ (CliffordTableau: known finding); C13.k from_op_list accepts only unitary operations with stabilizer effect; '
     'C13.l each definition that reaches a state update in an _act_on_ depends on the qubits argument')
more('C16', 'sibling-construction agreement, exhaustive writer match, numeric presence through writer calls, common-unit rule',
     'C16.r sites constructing one message / value class agree on the keyword set; C16.s writer match statements have a default arm; C16.j (extended) `if v: x_to_proto(v)` on numeric '
     'attributes; C16.t numbers written next to a unit are magnitudes in that unit')
more('C17', 'attribute coverage of the IonQ handlers; aggregated-count taint',
     'C17.i every state-bearing constructor field of a dispatched gate class is written or refused by its handler; C17.j rows of a multi-key Result never derive from per-key aggregated counts')
more('C18', 'who-may-read rule on the latest-record view; axis labels of per-repetition blocks and zero-repetition records; int64 guard by interpretation; aggregated-count taint',
     'C18.k run() results from all records; C18.g (extended) per-repetition block is (instances, qubits), zero-repetition records are (0, instances, qubits); '
     'C18.m the fast histogram declines whenever base**n exceeds int64; C18.l rows never from aggregated counts')
more('C19', 'PhasedXPowGate export by interpretation', 'C19.i PhasedXPowGate._qasm_ == Z^p X^e Z^-p on an (e, p) grid, delegations followed')

# round 6 (session 3): rules from round-6 misses, from defects reported by the round-6 reviewers, and from reviewer twins
more('C01', 'ordering rule on named initial states', 'C01.l a ProductState initial state is written in the qubit order of the simulation before it becomes a bare vector')
more('C02', 'effect rule on confusion-map keys; helper-following guard rule', 'C02.n every consumer of confusion_map.items() uses the key tuple position by position, never through one picked element or a slice; '
     'C02.j (generalised) an extracted private helper is judged at each of its call sites')
more('C04', 'stored-value normalisation of control values; helper-following representation guard', 'C04.i the constructors of the control-value classes store plain ints (stored values index numpy arrays, where a bool is a mask); C04.g (generalised) a private helper is judged at its call sites; C04.j gate wrappers that size themselves from the wrapped gate also take their qid shape from it')
more('C05', 'bookkeeping rules of the insertion routines (growth accounting, key-aware placement, one forward cursor, one reference index per batch)',
     'C05.m batch_insert accounts for earlier insertions by the growth of the circuit; C05.n placement routines also consult measurement / control keys (1 known finding: frontier-based insertion); '
     'C05.o insert_into_range keeps one forward-moving cursor; C05.p the reference index of Circuit.insert follows placements once per batch, not per item')
more('C07', 'interpretation of the AQT single-qubit shortcut on model powers of H', 'C07.i the hard-wired single-qubit replacement of the AQT target gateset equals the gate it replaces')
more('C08', 'identity-vs-equality rule on predicates; interpretation of equivalence-group keys; interpretation of CliffordGate.__pow__ over the model group Z',
     'C08.q predicate methods never answer with a bare `a is b` of two non-singleton values; C08.r qubits given the same equivalence-group key are exchangeable in the matrix '
     '(PhasedFSimGate on a grid incl. special angles; three-qubit families on their tables); C08.s square-and-multiply of CliffordGate.__pow__ returns the k-th power for |k| <= 40; C08.t / C08.u equal values hash equally: no mapping entry order in equality or hash code, frozen dataclasses pair a hand-written __eq__ with a hand-written __hash__')
more('C10', 'accumulator rule on sweep rewrites; subclass-recognition rule in cirq.study', 'C10.j a loop that rebuilds a sweep appends exactly one point per point, into a list; C10.k where Zip is recognised by isinstance in cirq.study / transformers / sim / work, ZipLongest is tested too; C10.l transformers apply numpy predicates to exponent-like attributes only behind a parameterization test')
more('C11', 'repr/equality field coherence; path rule on optional JSON keys; order-insensitive consumption of mappings in equality code; eq/hash pairing of frozen dataclasses',
     'C11.o __repr__ of every JSON-serializable value-equality class reads each field its equality reads (derived / fixed fields tabled); C11.q every path of a branching _json_dict_ (and of '
     'the helpers it calls) writes or tests each field some path writes; C11.r equality / hash code never freezes the entry order of a mapping into a tuple or list; '
     'C11.s a frozen dataclass with a hand-written __eq__ has a hand-written __hash__; C11.t a constructor argument kept verbatim is compared through the verbatim field, not through a digest computed from it (lossless digests tabled)')
more('C12', 'dimension rule on the sub-circuit matrix product; interpretation of rescoping on model keys',
     'C12.q CircuitOperation._unitary_ brings the matrices of the body to one dimension before multiplying; C12.r moments see keys of earlier moments only, sub-circuits keep enclosing keys by path length and record path + parent path')
more('C13', 'interpretation of CliffordGate.__pow__ over the model group Z; must-pass-through of the global shift to the phase carrier (with residue reasoning on exponent % 2 ladders)', 'C13.m square-and-multiply returns the k-th power for every integer |k| <= 40; C13.n every method of the CH form that takes global_shift updates omega from it on every normally ending path')
more('C14', 'dependence rule on the phase of PauliString powers; path rule on empty decompositions', 'C14.n every non-refusing return of PauliString.__pow__ depends on the phase of the coefficient; C14.o a decomposition path that explicitly hands back no operation has tested a phase-carrying field')
more('C16', 'tags-with-untagged rule in the circuit writer; subclass-recognition rule in sweep converters',
     'C16.u a branch that serializes `<op>.untagged` also looks at `<op>.tags`; C16.v where a sweep class with an overriding subclass (Zip <- ZipLongest) is recognised, the subclass is tested too')
more('C17', 'interpretation of the AQT single-qubit shortcut; writer/reader agreement on record keys', 'C17.k the hard-wired single-qubit replacement of the AQT target gateset equals the gate it replaces; C17.l a writer that joins records which the reader stores in a dictionary by key refuses repeated keys')
more('C19', 'field coverage of Condition._qasm_; dimension coverage of gate _qasm_', 'C19.j _qasm_ of every Condition class reads each declared field (writes it or refuses under a test of it); C19.k _qasm_ of every class that can be built with a dimension / qid shape reads it')
for _pid in ('C01', 'C02', 'C03', 'C04', 'C05', 'C06', 'C07', 'C08', 'C09', 'C10', 'C11', 'C12', 'C13', 'C14', 'C16', 'C17', 'C18', 'C19', 'C20'):
    more(_pid, 'constructor / optional-argument purity and single-use-generator rules over the attributed functions',
         f'{_pid}.z_ctor constructors neither store into nor mutate their arguments (unless rebound to a copy first); {_pid}.z_opt an optional dict / list / set argument is never mutated in place; '
         f'{_pid}.z_gen a local bound to a generator is consumed at most once along any execution')
more('C03', 'interpretation follows module-level helpers and @property of the class', 'C03.f (generalised) a _unitary_ assembled through extracted helper functions / properties is interpreted like the inlined code')
more('C04', 'interpretation of _extract_phase on a grid; effect rule on tensor arguments', 'C04.k the global phase operation is left out only when the phase is 1 (shift * exponent an even integer); C04.l tensors handed to Apply*Args are never bare ufunc results (scalars for zero-qubit states)')
more('C07', 'provenance rule on the exhaustive fallback of Gateset.__contains__', 'C07.j the last-resort search iterates a field holding every family, never the values of an index keyed by gate; C07.k a measurement re-created from the qubits of an existing one forwards or refuses its invert mask and confusion map')
more('C09', 'interpretation of the measurement-moment predicate; must-pass-through on configured durations',
     'C09.l validate_all_measurements: all measurements -> True, none / empty -> False, mixed -> raise; C09.m ThermalNoiseModel consults gate_durations_ns before a wait gate\'s own duration; C09.n functions that take matrices from the protocols and size by 2**n / 4**n also consult the dimensions (exceptions tabled)')
more('C19', 'interpretation of MeasurementGate._qasm_ over all masks and both language versions', 'C19.h (extended) statement k measures qubit k into bit k; exactly the inverted positions are wrapped in x statements')
more('C20', 'retry table by interpretation over (code, request kind); canonical form for the execution-loop shape rule',
     'C20.d every (error code, kind of current request) pair gives the request that makes the job run once, everything else raises; C20.a is applied after inlining simple helpers and folding single-use locals')
for _pid in ('C01', 'C02', 'C03', 'C04', 'C05', 'C06', 'C07', 'C08', 'C09', 'C10', 'C11', 'C12', 'C13', 'C14', 'C16', 'C17', 'C18', 'C19', 'C20'):
    more(_pid, 'memo-invalidation rule over the attributed classes; contradicted-belief rule on emptiness', f'{_pid}.z_memo a field filled lazily from other fields is reset by every method that reassigns one of those fields; '
         f'{_pid}.z_first x[0] / x[-1] of a sequence the function itself tests for emptiness only where a dominating condition excludes the empty case; '
         f'{_pid}.z_inv a back-mapping built in a nested loop (inner value -> outer value) keeps every owner or guards against repeats; '
         f'{_pid}.z_coord the .x of a caller\'s qubit becomes a container index / payload position only in a function that compares it with 0; '
         f'{_pid}.z_none call sites of one `-> T | None` function (T sized) agree that absence is tested with `is None`, not by truthiness')
more('C18', 'sibling agreement on the digit type', 'C18.n every 8-bit array of measured digits in cirq.sim is unsigned')
more('C02', 'sibling agreement on the digit type', 'C02.o every 8-bit array of measured digits in cirq.sim is unsigned (terminal sampling and per-repetition recording agree for qudit digits >= 128)')
more('C02', 'sibling agreement of the two confusion routines', 'C02.p each routine reads the row digits from the array it writes (entries of a confusion map act in sequence on both paths)')
more('C18', 'unrolled-view rule on per-key shape derivation', 'C18.o per-key shapes derived with the one-key-per-operation protocols walk the operations sub-circuits stand for')
more('C06', 'conflict-relation coherence of the merge primitive', 'C06.r the moment a component may merge into is bounded by qubits, measurement-vs-control keys both ways and measurement-vs-measurement of one key')
more('C06', 'position-not-value rule on terminal measurements', 'C06.s consumers of find_terminal_measurements keep the moment index of every pair')
more('C16', 'required exactness guard on narrowing stores', 'C16.w a value that may be an integer reaches a float32 field only under a float32 exactness test (or integers are taken by an earlier branch)')
more('C02', 'helper-following order rule; deeper reference battery for stabilizer measurement', 'C02.h the inversion step may live in a helper that receives the mask; C13.g (shared) compares 120 sampled three-qubit tableaux')
more('C04', 'numpy-scalar probe exponents for the kernel/matrix comparison', 'C04.b kernels agree with the matrices also for np.float32 / np.float64 exponents (where `(-1) ** e` is nan)')
more('C05', 'tag forwarding of derived circuits; helper families of the bulk-placement idiom', 'C05.q every circuit derived from the receiver\'s moments passes tags=; C05.c / C05.p follow extracted placement helpers')
more('C08', 'paired-sort rule on equality values', 'C08.v controls and their value columns are sorted as pairs')
more('C12', 'simultaneous rewriting of all three key rewrites; moment-level binding order; scoped control keys; structural substitution',
     'C12.j prefix / rescope of a multi-key condition are simultaneous; C12.r (extended) operation j of a moment may bind to what operations 0..j-1 measure; C12.s no subs(simultaneous=True) on conditions; '
     'C12.t CircuitOperation._control_keys reads the scoped body')
more('C13', 'larger sampled battery for the measurement interpreter', 'C13.g compares 120 sampled three-qubit tableaux (histories of up to 9 gates) besides the exhaustive two-qubit ones')
more('C14', 'fresh arrays for value operators; interpretation of pow_pauli_combination', 'C14.p value-producing operators of BaseDensePauliString do not alias the mask; C14.q pow_pauli_combination rebuilds the matrix power on a coefficient grid')
more('C16', 'alias-insensitive reader coverage', 'C16.a (generalised) a sub-message named by a local is read like the attribute chain it stands for')
more('C18', 'dict accumulators in histograms; comprehension form of result concatenation; record helper following', 'C18.f a plain dict that is returned as the histogram is never merged with dict.update; C18.g / C18.b follow the comprehension / helper forms')
more('C20', 'end-of-stream obligation', 'C20.c the normal end of the response loop is turned into a break (raise / publish by hand)')
for _pid in ('C01', 'C02', 'C03', 'C04', 'C05', 'C06', 'C07', 'C08', 'C09', 'C10', 'C11', 'C12', 'C13', 'C14', 'C16', 'C17', 'C18', 'C19', 'C20'):
    more(_pid, 'one-shot-iterable-in-loop rule', f'{_pid}.z_loop a parameter annotated Iterable / Iterator that is never materialised is not consumed inside a loop over something else')
more('C08', 'dispatch rule on the approximate-equality getter the decorator installs', 'C08.w the default _value_equality_approximate_values_ goes through self._value_equality_values_(), so subclasses that extend the exact values are compared on them by approx_eq (4 subclasses today)')
more('C05', 'pairing rule on Moment subtraction', 'C05.r Moment.__sub__ consumes one entry of the removal collection per dropped operation (equal qubit-less operations keep their multiplicity)')
more('C09', 'must-pass-through on the term loops of the channel / mixture strategies; own-method summaries in the trajectory rule',
     'C09.o every loop that sums terms into args.out_buffer restores args.target_tensor from a stash (filled outside the loops) before a term may overwrite it; C09.b follows an own method that returns the squared norm')
more('C04', 'the same term-loop rule; interpretation of the PhasedFSimGate kernel against the documented matrix',
     'C04.m (= C09.o) terms of a mixture / channel start from the input tensor; C04.n PhasedFSimGate._apply_unitary_ equals the documented five-angle matrix on a 192-point grid incl. theta = +-pi')
more('C03', 'interpretation of the PhasedFSimGate kernel against the documented matrix', 'C03.h (= C04.n) the in-place kernel and the documented matrix of PhasedFSimGate agree on a grid incl. theta = +-pi, zeta = 0')
more('C07', 'body-for-operation rule follows helpers and named conditions', 'C07.e (extended) a helper that is handed the CircuitOperation, `resolve_parameters(<op>.circuit, ...)` as a way of taking the body, and a named local holding the own-tag test')
more('C13', 'starred unpacking in the interpreter', 'C13.g interprets `p, *others = rows` forms of the measurement routine instead of giving up')
for _pid in ('C01', 'C02', 'C03', 'C04', 'C05', 'C06', 'C07', 'C08', 'C09', 'C10', 'C11', 'C12', 'C13', 'C14', 'C16', 'C17', 'C18', 'C19', 'C20'):
    more(_pid, 'stale-read, partial-mask and shallow-hashability rules over the attributed functions',
         f'{_pid}.z_stale a read-modify-write of X[b] does not straddle a store to X[a] when a, b come from one unpacking and are never compared; '
         f'{_pid}.z_mask a raw (possibly partial) invert_mask is zipped with the qubits only where absence means nothing or after padding; '
         f'{_pid}.z_hash hashability of element data is decided by hash(), not by isinstance(x, Hashable)')
more('C11', 'order coherence of repr and equality', 'C11.u a __repr__ does not sort / set-ify a field that equality compares in stored order (unless the constructor stores it canonicalised or the field is a set-valued property)')
more('C19', 'end-anchor table of the identifier validators; static methods in the decomposition interpreter', 'C19.l every pattern qasm_output applies with .match() ends in \\Z (a `$` accepts a trailing newline: two keys, one register); C19.d follows @staticmethod helpers of the gate')
for _pid in ('C01', 'C02', 'C03', 'C04', 'C05', 'C06', 'C07', 'C08', 'C09', 'C10', 'C11', 'C12', 'C13', 'C14', 'C16', 'C17', 'C18', 'C19', 'C20'):
    more(_pid, 'aggregate-stride rule', f'{_pid}.z_stride one element of a collection is never sliced with a stride computed, outside the loop, from the collection as a whole')
