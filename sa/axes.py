"""Abstract interpretation of numpy array expressions over *axis labels*.

A value is an array whose axes carry symbolic labels ('R' repetitions, 'I' instances of a key,
'Q' qubits, '1' a unit axis), a dimension (the size of a labelled axis), or a Python sequence
of labelled length.  The evaluator understands the handful of numpy operations that move axes
around (indexing with slices / newaxis / integers, reshape, swapaxes, transpose, moveaxis,
np.array of a list, zeros/empty with a shape, append/concatenate, len) and refuses everything
else (Unknown -> the calling rule aborts as ANALYSIS-ERROR, never a pass).

reshape is label-preserving only if the sequence of non-unit labels is unchanged; any other
reshape yields the label 'MIXED' on every axis, which never compares equal to a wanted layout.
"""
from __future__ import annotations

import ast
from typing import Dict, List, Optional, Tuple

from .core import call_name


class Unknown(Exception):
    pass


class Arr:
    def __init__(self, labels):
        self.labels = tuple(labels)

    def __repr__(self):
        return 'Arr' + repr(self.labels)


class Dim:
    def __init__(self, label):
        self.label = label

    def __repr__(self):
        return f'Dim({self.label})'


class Lst:
    def __init__(self, label, elem):
        self.label, self.elem = label, elem

    def __repr__(self):
        return f'Lst({self.label}, {self.elem!r})'


def as_arr(v) -> Arr:
    if isinstance(v, Arr):
        return v
    if isinstance(v, Lst):
        inner = v.elem
        if isinstance(inner, (Arr, Lst)):
            return Arr((v.label,) + as_arr(inner).labels)
        return Arr((v.label,))
    raise Unknown(f'not array-like: {v!r}')


def strip_units(labels, units=()):
    return tuple(l for l in labels if l != '1' and l not in units)


class AxisInterp:
    def __init__(self, env: Dict[str, object], hook=None):
        self.env = dict(env)
        self.hook = hook          # hook(node, interp) -> value or NotImplemented
        self.units = set()        # labels known to be of size 1 on the current path
        self.events: List[Tuple[str, object]] = []

    # ------------------------------------------------------------------ expressions
    def ev(self, n):
        if self.hook is not None:
            r = self.hook(n, self)
            if r is not NotImplemented:
                return r
        if isinstance(n, ast.Constant):
            return n.value
        if isinstance(n, ast.Name):
            if n.id in self.env:
                return self.env[n.id]
            raise Unknown(f'name {n.id}')
        if isinstance(n, ast.UnaryOp) and isinstance(n.op, ast.USub) and isinstance(n.operand, ast.Constant):
            return -n.operand.value
        if isinstance(n, (ast.Tuple, ast.List)):
            return tuple(self.ev(e) for e in n.elts)
        if isinstance(n, ast.Attribute):
            if n.attr == 'newaxis':
                return None
            v = self.ev(n.value)
            if n.attr == 'shape':
                return tuple(Dim(l) for l in as_arr(v).labels)
            if n.attr == 'ndim':
                return len(as_arr(v).labels)
            if n.attr == 'T':
                return Arr(tuple(reversed(as_arr(v).labels)))
            raise Unknown(f'attribute .{n.attr}')
        if isinstance(n, ast.Subscript):
            v = self.ev(n.value)
            return self.index(v, n.slice)
        if isinstance(n, ast.Call):
            return self.call(n)
        if isinstance(n, ast.IfExp):
            a, b = self.ev(n.body), self.ev(n.orelse)
            if repr(a) != repr(b):
                raise Unknown('branches of a conditional expression have different layouts')
            return a
        if isinstance(n, (ast.ListComp, ast.GeneratorExp)) and len(n.generators) == 1 and not n.generators[0].ifs:
            g = n.generators[0]
            it = self.ev(g.iter)
            if isinstance(it, Lst) and isinstance(g.target, ast.Name):
                saved = self.env.get(g.target.id, NotImplemented)
                self.env[g.target.id] = it.elem
                try:
                    e = self.ev(n.elt)
                finally:
                    if saved is NotImplemented:
                        self.env.pop(g.target.id, None)
                    else:
                        self.env[g.target.id] = saved
                return Lst(it.label, e)
            raise Unknown('comprehension over a non-list')
        raise Unknown(f'expression {ast.unparse(n)[:60]}')

    def index(self, v, sl):
        if isinstance(v, tuple):
            i = self.ev(sl) if not isinstance(sl, ast.Slice) else None
            if isinstance(sl, ast.Slice):
                lo = self.ev(sl.lower) if sl.lower is not None else None
                hi = self.ev(sl.upper) if sl.upper is not None else None
                return v[lo:hi]
            if isinstance(i, int):
                return v[i]
            raise Unknown('index into a shape tuple')
        if isinstance(v, Lst) and not isinstance(sl, ast.Tuple):
            if isinstance(sl, ast.Slice):
                return v
            return v.elem
        a = as_arr(v)
        items = list(sl.elts) if isinstance(sl, ast.Tuple) else [sl]
        out = []
        k = 0
        for it in items:
            if isinstance(it, ast.Slice):
                if k >= len(a.labels):
                    raise Unknown('too many indices')
                out.append(a.labels[k])
                k += 1
                continue
            val = None
            if isinstance(it, ast.Constant) and it.value is None:
                out.append('1')
                continue
            if isinstance(it, ast.Attribute) and it.attr == 'newaxis':
                out.append('1')
                continue
            # anything else is a scalar index: the axis disappears
            if k >= len(a.labels):
                raise Unknown('too many indices')
            k += 1
        out.extend(a.labels[k:])
        return Arr(out)

    def _shape_labels(self, shp):
        if not isinstance(shp, tuple):
            shp = (shp,)
        out = []
        for d in shp:
            if isinstance(d, Dim):
                out.append(d.label)
            elif d == 1:
                out.append('1')
            elif d == -1:
                out.append('*')
            elif isinstance(d, int):
                out.append(f'#{d}')
            else:
                raise Unknown(f'shape entry {d!r}')
        return tuple(out)

    def call(self, n: ast.Call):
        nm = call_name(n)
        f = n.func
        kw = {k.arg: k.value for k in n.keywords}
        if nm == 'len' and len(n.args) == 1:
            v = self.ev(n.args[0])
            if isinstance(v, Lst):
                return Dim(v.label)
            return Dim(as_arr(v).labels[0])
        if nm in ('max', 'min') and len(n.args) == 1:
            v = self.ev(n.args[0])
            if isinstance(v, Lst) and isinstance(v.elem, Dim):
                return v.elem
            raise Unknown('max/min of a non-dimension sequence')
        if nm in ('array', 'asarray') and n.args and not isinstance(f, ast.Name):
            return as_arr(self.ev(n.args[0]))
        if nm in ('zeros', 'empty', 'ones', 'full'):
            shp = kw.get('shape', n.args[0] if n.args else None)
            if shp is None:
                raise Unknown('zeros without shape')
            return Arr(self._shape_labels(self.ev(shp)))
        if nm in ('copy', 'astype') and isinstance(f, ast.Attribute):
            return self.ev(f.value)
        if nm == 'reshape':
            if isinstance(f, ast.Attribute) and not (isinstance(f.value, ast.Name) and f.value.id in ('np', 'numpy')):
                src = as_arr(self.ev(f.value))
                tgt = self.ev(n.args[0]) if len(n.args) == 1 else tuple(self.ev(a) for a in n.args)
            else:
                src = as_arr(self.ev(n.args[0]))
                tgt = self.ev(n.args[1])
            labels = self._shape_labels(tgt)
            s, t = strip_units(src.labels, self.units), strip_units(labels, self.units)
            ok = s == t
            if not ok and t.count('*') == 1 and len(t) == len(s):
                ok = all(a == b or b == '*' for a, b in zip(s, t))
                if ok:
                    labels = tuple(s[[x for x in t].index('*')] if l == '*' else l for l in labels)
            if not ok:
                self.events.append(('reshape-mixes-axes', (src.labels, labels)))
                return Arr(('MIXED',) * len(labels))
            return Arr(labels)
        if nm == 'swapaxes':
            if isinstance(f, ast.Attribute) and not (isinstance(f.value, ast.Name) and f.value.id in ('np', 'numpy')):
                a = as_arr(self.ev(f.value))
                i, j = self.ev(n.args[0]), self.ev(n.args[1])
            else:
                a = as_arr(self.ev(n.args[0]))
                i, j = self.ev(n.args[1]), self.ev(n.args[2])
            ls = list(a.labels)
            ls[i], ls[j] = ls[j], ls[i]
            return Arr(ls)
        if nm == 'transpose':
            if isinstance(f, ast.Attribute) and not (isinstance(f.value, ast.Name) and f.value.id in ('np', 'numpy')):
                a = as_arr(self.ev(f.value))
                perm = [self.ev(x) for x in n.args]
            else:
                a = as_arr(self.ev(n.args[0]))
                perm = [self.ev(x) for x in n.args[1:]]
            if len(perm) == 1 and isinstance(perm[0], tuple):
                perm = list(perm[0])
            if not perm:
                return Arr(tuple(reversed(a.labels)))
            return Arr(tuple(a.labels[p] for p in perm))
        if nm == 'moveaxis':
            a = as_arr(self.ev(n.args[0]))
            s, d = self.ev(n.args[1]), self.ev(n.args[2])
            ls = list(a.labels)
            x = ls.pop(s)
            ls.insert(d if d >= 0 else len(ls) + 1 + d, x)
            return Arr(ls)
        if nm in ('append', 'concatenate', 'stack') and not (isinstance(f, ast.Attribute) and isinstance(f.value, ast.Name) and f.value.id not in ('np', 'numpy')):
            ax = kw.get('axis', None)
            if nm == 'append':
                parts = [as_arr(self.ev(a)) for a in n.args[:2]]
                if ax is None and len(n.args) > 2:
                    ax = n.args[2]
            else:
                seq = self.ev(n.args[0])
                parts = [as_arr(p) for p in seq] if isinstance(seq, tuple) else None
                if parts is None:
                    raise Unknown('concatenate of a non-literal sequence')
                if ax is None and len(n.args) > 1:
                    ax = n.args[1]
            if ax is None:
                self.events.append(('concat-flattens', None))
                return Arr(('MIXED',))
            k = self.ev(ax)
            if len({p.labels for p in parts}) != 1:
                self.events.append(('concat-different-layouts', [p.labels for p in parts]))
                return Arr(('MIXED',) * len(parts[0].labels))
            if nm == 'stack':
                ls = list(parts[0].labels)
                ls.insert(k, 'STACK')
                return Arr(ls)
            self.events.append(('concat-axis', parts[0].labels[k]))
            return parts[0]
        raise Unknown(f'call {ast.unparse(n)[:60]}')

    # ------------------------------------------------------------------ statements
    def run(self, stmts, on_store=None):
        """Assign / tuple-unpack / guards that raise / subscript stores (reported to on_store) / nested for over known lists."""
        for st in stmts:
            if isinstance(st, ast.Assign) and len(st.targets) == 1:
                t = st.targets[0]
                if isinstance(t, ast.Subscript):
                    try:
                        tv = self.index(self.ev(t.value), t.slice) if not isinstance(t.value, ast.Attribute) else None
                    except Unknown:
                        tv = None
                    if on_store is not None:
                        on_store(st, t, tv, self)
                    continue
                try:
                    v = self.ev(st.value)
                except Unknown:
                    continue
                if isinstance(t, ast.Name):
                    self.env[t.id] = v
                elif isinstance(t, ast.Tuple) and isinstance(v, tuple) and len(v) == len(t.elts):
                    for e, x in zip(t.elts, v):
                        if isinstance(e, ast.Name):
                            self.env[e.id] = x
            elif isinstance(st, ast.AnnAssign) and st.value is not None and isinstance(st.target, ast.Name):
                try:
                    self.env[st.target.id] = self.ev(st.value)
                except Unknown:
                    pass
            elif isinstance(st, ast.If):
                raises = bool(st.body) and isinstance(st.body[-1], ast.Raise) and not st.orelse
                if raises and isinstance(st.test, ast.Compare) and len(st.test.ops) == 1 and isinstance(st.test.ops[0], ast.NotEq):
                    try:
                        l, r = self.ev(st.test.left), self.ev(st.test.comparators[0])
                    except Unknown:
                        l = r = None
                    if isinstance(l, Dim) and r == 1:
                        self.units.add(l.label)
                elif not raises:
                    self.run(st.body, on_store)
                    self.run(st.orelse, on_store)
            elif isinstance(st, ast.For):
                try:
                    it = self.ev(st.iter)
                except Unknown:
                    it = None
                if isinstance(it, Lst) and isinstance(st.target, ast.Name):
                    self.env[st.target.id] = it.elem
                elif isinstance(st.iter, ast.Call) and call_name(st.iter) == 'enumerate' and isinstance(st.target, ast.Tuple) and len(st.target.elts) == 2:
                    try:
                        inner = self.ev(st.iter.args[0])
                    except Unknown:
                        inner = None
                    if isinstance(inner, Lst):
                        self.env[st.target.elts[0].id] = 0
                        if isinstance(st.target.elts[1], ast.Name):
                            self.env[st.target.elts[1].id] = inner.elem
                self.run(st.body, on_store)
