"""Constant folder for literal numeric expressions (numbers, complex, numpy array literals and
a closed set of numpy constructors).  Anything else raises NotLiteral."""
from __future__ import annotations

import ast
import math
from typing import Any, Dict, Optional

import numpy as np


class NotLiteral(Exception):
    pass


_NP_FUNCS = {
    'array': lambda *a, **k: np.array(a[0], dtype=k.get('dtype', None)) if a else None,
    'diag': lambda v, *a, **k: np.diag(np.array(v)),
    'eye': lambda n, *a, **k: np.eye(int(n)),
    'identity': lambda n, *a, **k: np.eye(int(n)),
    'sqrt': lambda v: np.sqrt(v),
    'exp': lambda v: np.exp(v),
    'cos': lambda v: np.cos(v),
    'sin': lambda v: np.sin(v),
    'kron': lambda a, b: np.kron(a, b),
    'zeros': lambda shape, *a, **k: np.zeros(shape),
    'ones': lambda shape, *a, **k: np.ones(shape),
    'conj': lambda v: np.conj(v),
    'transpose': lambda v: np.transpose(v),
}
_CONSTS = {'np.pi': math.pi, 'math.pi': math.pi, 'numpy.pi': math.pi, 'np.e': math.e, 'math.e': math.e,
           'np.complex128': complex, 'np.complex64': complex, 'np.float64': float, 'complex': complex, 'float': float, 'int': int}


def _block_diag(*ms):
    ms = [np.atleast_2d(np.array(m)) for m in ms]
    n = sum(m.shape[0] for m in ms)
    out = np.zeros((n, n), dtype=complex)
    i = 0
    for m in ms:
        k = m.shape[0]
        out[i:i + k, i:i + k] = m
        i += k
    return out


def fold(node: ast.AST, env: Optional[Dict[str, Any]] = None):
    env = env or {}

    def ev(n):
        if isinstance(n, ast.Constant):
            if isinstance(n.value, (int, float, complex, bool)) or n.value is None:
                return n.value
            raise NotLiteral('string/other constant')
        if isinstance(n, ast.Name):
            if n.id in env:
                return env[n.id]
            if n.id in _CONSTS:
                return _CONSTS[n.id]
            raise NotLiteral(f'name {n.id}')
        if isinstance(n, ast.Attribute):
            d = ast.unparse(n)
            if d in _CONSTS:
                return _CONSTS[d]
            if n.attr == 'T':
                return np.transpose(ev(n.value))
            raise NotLiteral(f'attribute {d}')
        if isinstance(n, ast.UnaryOp):
            v = ev(n.operand)
            if isinstance(n.op, ast.USub):
                return -v
            if isinstance(n.op, ast.UAdd):
                return +v
            raise NotLiteral('unary')
        if isinstance(n, ast.BinOp):
            l, r = ev(n.left), ev(n.right)
            op = n.op
            if isinstance(op, ast.Add):
                return l + r
            if isinstance(op, ast.Sub):
                return l - r
            if isinstance(op, ast.Mult):
                return l * r
            if isinstance(op, ast.Div):
                return l / r
            if isinstance(op, ast.Pow):
                return l ** r
            if isinstance(op, ast.MatMult):
                return np.array(l) @ np.array(r)
            raise NotLiteral('binop')
        if isinstance(n, (ast.List, ast.Tuple)):
            return [ev(e) for e in n.elts]
        if isinstance(n, ast.Call):
            f = n.func
            fname = ast.unparse(f)
            args = [ev(a) for a in n.args]
            kw = {}
            for k in n.keywords:
                if k.arg == 'dtype':
                    continue
                if k.arg is None:
                    raise NotLiteral('**kwargs')
                kw[k.arg] = ev(k.value)
            last = fname.split('.')[-1]
            if fname.startswith(('np.', 'numpy.')) and last in _NP_FUNCS:
                return _NP_FUNCS[last](*args, **kw)
            if last == 'block_diag':
                return _block_diag(*args)
            if last == 'conj' and isinstance(f, ast.Attribute) and not args:
                return np.conj(ev(f.value))
            if fname in ('complex', 'float', 'int', 'abs') and args:
                return {'complex': complex, 'float': float, 'int': int, 'abs': abs}[fname](*args)
            if last in ('cast',) and len(args) == 2:
                return args[1]
            raise NotLiteral(f'call {fname}')
        if isinstance(n, ast.Subscript):
            v = ev(n.value)
            i = ev(n.slice)
            try:
                return v[i]
            except Exception as e:
                raise NotLiteral(str(e))
        raise NotLiteral(type(n).__name__)

    return ev(node)


def fold_function_return(fn: ast.AST, env: Optional[Dict[str, Any]] = None):
    """Fold the single `return` of a function whose body is single-assignment straight-line code."""
    env = dict(env or {})
    ret = None
    for st in fn.body:
        if isinstance(st, ast.Expr) and isinstance(st.value, ast.Constant):
            continue
        if isinstance(st, ast.Assign) and len(st.targets) == 1 and isinstance(st.targets[0], ast.Name):
            try:
                env[st.targets[0].id] = fold(st.value, env)
            except NotLiteral:
                pass
            continue
        if isinstance(st, ast.Return):
            ret = st
            break
        raise NotLiteral(f'statement {type(st).__name__}')
    if ret is None or ret.value is None:
        raise NotLiteral('no return')
    return fold(ret.value, env)
