"""Syntax-directed path analysis over function bodies.

`PathWalker` enumerates abstract paths through a function: the client supplies a
transfer function over *simple* statements / evaluated expressions and an optional
branch refinement; the walker handles if/elif/else, match, for/while(+else), try/except/
else/finally, with, return, raise, break, continue.  States must be hashable; the walker
keeps a *set* of states per program point (path sensitive up to state identity), and
iterates loops to a fixed point.  Exits are collected as (kind, state, node).

Also here: structural dominance helpers (enclosing tests, preceding exiting guards).
"""
from __future__ import annotations

import ast
from typing import Callable, Dict, FrozenSet, Iterable, List, Optional, Set, Tuple

State = object


class PathWalker:
    def __init__(
        self,
        transfer: Callable[[ast.AST, State], Iterable[State]],
        branch: Optional[Callable[[ast.AST, bool, State], Iterable[State]]] = None,
        max_states: int = 4096,
    ):
        self.transfer = transfer
        self.branch = branch
        self.exits: List[Tuple[str, State, ast.AST]] = []  # ('return'|'raise'|'fall', state, node)
        self.max_states = max_states

    # -- helpers
    def _apply(self, node: ast.AST, states: Set[State]) -> Set[State]:
        out: Set[State] = set()
        for s in states:
            out.update(self.transfer(node, s))
        if len(out) > self.max_states:
            raise RuntimeError('state explosion')
        return out

    def _branch(self, test: ast.AST, states: Set[State]) -> Tuple[Set[State], Set[State]]:
        states = self._apply(test, states)
        if self.branch is None:
            return set(states), set(states)
        t: Set[State] = set()
        f: Set[State] = set()
        for s in states:
            t.update(self.branch(test, True, s))
            f.update(self.branch(test, False, s))
        return t, f

    def run(self, fn: ast.AST, init: State):
        self.exits = []
        out, brk, cont = self.block(fn.body, {init})
        for s in out:
            self.exits.append(('fall', s, fn))
        return self.exits

    def block(self, stmts, states: Set[State]):
        brk: Set[State] = set()
        cont: Set[State] = set()
        for st in stmts:
            if not states:
                break
            states, b, c = self.stmt(st, states)
            brk |= b
            cont |= c
        return states, brk, cont

    def stmt(self, st: ast.AST, states: Set[State]):
        E: Set[State] = set()
        if isinstance(st, ast.If):
            t, f = self._branch(st.test, states)
            o1, b1, c1 = self.block(st.body, t)
            o2, b2, c2 = self.block(st.orelse, f)
            return o1 | o2, b1 | b2, c1 | c2
        if isinstance(st, ast.Match):
            states = self._apply(st.subject, states)
            out: Set[State] = set()
            brk: Set[State] = set()
            cont: Set[State] = set()
            exhaustive = False
            for case in st.cases:
                cs = set(states)
                if case.guard is not None:
                    cs, _ = self._branch(case.guard, cs)
                o, b, c = self.block(case.body, cs)
                out |= o
                brk |= b
                cont |= c
                if (
                    isinstance(case.pattern, ast.MatchAs)
                    and case.pattern.pattern is None
                    and case.guard is None
                ):
                    exhaustive = True
            if not exhaustive:
                out |= states
            return out, brk, cont
        if isinstance(st, (ast.For, ast.AsyncFor, ast.While)):
            if isinstance(st, ast.While):
                head = st.test
                infinite = isinstance(head, ast.Constant) and bool(head.value)
            else:
                head = st.iter
                infinite = False
            seen: Set[State] = set()
            exit_states: Set[State] = set()
            brk_all: Set[State] = set()
            frontier = set(states)
            first = True
            while frontier - seen or first:
                first = False
                new = frontier - seen
                seen |= new
                if isinstance(st, ast.While):
                    t, f = self._branch(head, new)
                else:
                    t = self._apply(head, new)
                    f = set(t)
                    t = self._apply(ast.Assign(targets=[st.target], value=ast.Constant(value=None), lineno=st.lineno, col_offset=0), t) if False else t
                if not infinite:
                    exit_states |= f
                o, b, c = self.block(st.body, t)
                brk_all |= b
                frontier = o | c
                if not frontier:
                    break
            o2, b2, c2 = self.block(st.orelse, exit_states)
            return o2 | brk_all, b2, c2
        if isinstance(st, (ast.With, ast.AsyncWith)):
            for it in st.items:
                states = self._apply(it.context_expr, states)
            return self.block(st.body, states)
        if isinstance(st, ast.Try) or st.__class__.__name__ == 'TryStar':
            # body may raise at any point: handlers start from the union of entry state and
            # every state reached inside the body (approximated by entry + body-out states).
            n_before = len(self.exits)
            o, b, c = self.block(st.body, states)
            # raises inside the body that a handler may catch: re-route them to the handlers
            inner_raises = [e for e in self.exits[n_before:] if e[0] == 'raise']
            hstates = set(states) | o | {e[1] for e in inner_raises}
            catches_all = any(h.type is None or (isinstance(h.type, ast.Name) and h.type.id in ('Exception', 'BaseException')) for h in st.handlers)
            if st.handlers and catches_all:
                self.exits[n_before:] = [e for e in self.exits[n_before:] if e[0] != 'raise']
            o_else, b_e, c_e = self.block(st.orelse, o)
            out = o_else
            brk = b | b_e
            cont = c | c_e
            for h in st.handlers:
                oh, bh, ch = self.block(h.body, set(hstates))
                out |= oh
                brk |= bh
                cont |= ch
            if st.finalbody:
                out, bf, cf = self.block(st.finalbody, out)
                brk, _, _ = self.block(st.finalbody, brk) if brk else (brk, E, E)
                cont, _, _ = self.block(st.finalbody, cont) if cont else (cont, E, E)
                brk |= bf
                cont |= cf
            return out, brk, cont
        if isinstance(st, ast.Return):
            if st.value is not None:
                states = self._apply(st.value, states)
            states = self._apply(st, states)
            for s in states:
                self.exits.append(('return', s, st))
            return E, E, E
        if isinstance(st, ast.Raise):
            states = self._apply(st, states)
            for s in states:
                self.exits.append(('raise', s, st))
            return E, E, E
        if isinstance(st, ast.Break):
            return E, set(states), E
        if isinstance(st, ast.Continue):
            return E, E, set(states)
        if isinstance(st, (ast.FunctionDef, ast.AsyncFunctionDef, ast.ClassDef)):
            return self._apply(st, states), E, E
        return self._apply(st, states), E, E


# ------------------------------------------------------------------ structure

def always_exits(stmts) -> bool:
    """Every path through `stmts` ends in return/raise/continue/break."""
    for st in stmts:
        if isinstance(st, (ast.Return, ast.Raise, ast.Continue, ast.Break)):
            return True
        if isinstance(st, ast.If) and st.orelse and always_exits(st.body) and always_exits(st.orelse):
            return True
    return False


def always_raises(stmts) -> bool:
    for st in stmts:
        if isinstance(st, ast.Raise):
            return True
        if isinstance(st, ast.If) and st.orelse and always_raises(st.body) and always_raises(st.orelse):
            return True
    return False


def block_of(parents: Dict[ast.AST, ast.AST], node: ast.AST):
    """(owner, fieldname, list, index) of the statement list containing `node`'s statement."""
    cur = node
    while cur in parents:
        p = parents[cur]
        for f in ('body', 'orelse', 'finalbody', 'handlers'):
            lst = getattr(p, f, None)
            if isinstance(lst, list) and cur in lst:
                return p, f, lst, lst.index(cur)
        if isinstance(p, ast.match_case) and cur in p.body:
            return p, 'body', p.body, p.body.index(cur)
        cur = p
    return None


def dominating_conditions(parents: Dict[ast.AST, ast.AST], node: ast.AST, stop: ast.AST = None):
    """List of (test_expr, polarity) that hold whenever `node` executes, derived
    structurally: enclosing if/while/ifexp/comprehension conditions, and earlier sibling
    `if t: <always exits>` statements (giving (t, False)), up to function `stop`."""
    out: List[Tuple[ast.AST, bool]] = []
    cur = node
    while cur in parents and cur is not stop:
        p = parents[cur]
        if isinstance(p, ast.If) or isinstance(p, ast.While):
            if cur in p.body:
                out.append((p.test, True))
            elif cur in p.orelse and isinstance(p, ast.If):
                out.append((p.test, False))
        elif isinstance(p, ast.IfExp):
            if cur is p.body:
                out.append((p.test, True))
            elif cur is p.orelse:
                out.append((p.test, False))
        elif isinstance(p, ast.BoolOp):
            idx = p.values.index(cur) if cur in p.values else -1
            for v in p.values[: max(idx, 0)]:
                out.append((v, isinstance(p.op, ast.And)))
        elif isinstance(p, ast.comprehension):
            pass
        elif isinstance(p, (ast.ListComp, ast.SetComp, ast.GeneratorExp, ast.DictComp)):
            for g in p.generators:
                if cur is not g:
                    for i in g.ifs:
                        out.append((i, True))
        # earlier siblings with exiting bodies
        for f in ('body', 'orelse', 'finalbody'):
            lst = getattr(p, f, None)
            if isinstance(lst, list) and cur in lst:
                for sib in lst[: lst.index(cur)]:
                    if isinstance(sib, ast.If) and always_exits(sib.body) and not sib.orelse:
                        out.append((sib.test, False))
                    elif isinstance(sib, ast.If) and sib.orelse and always_exits(sib.orelse) and not always_exits(sib.body):
                        out.append((sib.test, True))
                    elif isinstance(sib, ast.Assert):
                        out.append((sib.test, True))
        if isinstance(p, (ast.FunctionDef, ast.AsyncFunctionDef, ast.Lambda)):
            if stop is None or p is stop:
                break
        cur = p
    return out


def conjuncts(test: ast.AST, polarity: bool = True) -> List[Tuple[ast.AST, bool]]:
    """Flatten `a and b` (under True) / `a or b` (under False) / `not x` into atoms."""
    if isinstance(test, ast.UnaryOp) and isinstance(test.op, ast.Not):
        return conjuncts(test.operand, not polarity)
    if isinstance(test, ast.BoolOp):
        if isinstance(test.op, ast.And) and polarity:
            return [a for v in test.values for a in conjuncts(v, True)]
        if isinstance(test.op, ast.Or) and not polarity:
            return [a for v in test.values for a in conjuncts(v, False)]
    return [(test, polarity)]


def dominating_atoms(parents, node, stop=None) -> List[Tuple[ast.AST, bool]]:
    out = []
    for t, pol in dominating_conditions(parents, node, stop):
        out.extend(conjuncts(t, pol))
    return out


def enclosing_function(parents, node):
    cur = node
    while cur in parents:
        cur = parents[cur]
        if isinstance(cur, (ast.FunctionDef, ast.AsyncFunctionDef, ast.Lambda)):
            return cur
    return None


def enclosing_loops(parents, node, stop=None):
    out = []
    cur = node
    while cur in parents and cur is not stop:
        p = parents[cur]
        if isinstance(p, (ast.For, ast.AsyncFor, ast.While)) and cur in p.body:
            out.append(p)
        if isinstance(p, (ast.FunctionDef, ast.AsyncFunctionDef)):
            break
        cur = p
    return out


def stmts_in_order(fn: ast.AST) -> List[ast.AST]:
    """All statements of a function in source order (nested included, not nested defs)."""
    out = []

    def rec(lst):
        for st in lst:
            out.append(st)
            for f in ('body', 'orelse', 'finalbody'):
                sub = getattr(st, f, None)
                if isinstance(sub, list) and not isinstance(st, (ast.FunctionDef, ast.AsyncFunctionDef, ast.ClassDef)):
                    rec(sub)
            for h in getattr(st, 'handlers', []) or []:
                rec(h.body)
            for c in getattr(st, 'cases', []) or []:
                rec(c.body)

    rec(fn.body)
    return out


def reaching_defs(fn: ast.AST, names):
    """Path-sensitive reaching definitions for the given local names.
    Returns {id(Name load node): set of value nodes (or the string 'param'/'loop') that may reach it}."""
    names = set(names)
    uses: Dict[int, set] = {}
    defs_by_id: Dict[int, object] = {}

    def reg(v):
        defs_by_id[id(v)] = v
        return id(v)

    def transfer(node, state):
        st = dict(state)
        # uses first (value side), then defs
        val_nodes = []
        if isinstance(node, (ast.Assign, ast.AnnAssign, ast.AugAssign)):
            if getattr(node, 'value', None) is not None:
                val_nodes.append(node.value)
            # names read inside a target (the base object of `x.f = ...` / `x[i] = ...`)
            val_nodes.extend(node.targets if isinstance(node, ast.Assign) else [node.target])
        elif not isinstance(node, (ast.Return, ast.Raise)):
            val_nodes.append(node)
        for vn in val_nodes:
            for n in ast.walk(vn):
                if isinstance(n, ast.Name) and isinstance(n.ctx, ast.Load) and n.id in names:
                    uses.setdefault(id(n), set()).add(st.get(n.id, 'undefined'))
        if isinstance(node, ast.Assign):
            for t in node.targets:
                for x in ast.walk(t):
                    if isinstance(x, ast.Name) and x.id in names and isinstance(x.ctx, ast.Store):
                        st[x.id] = reg(node.value)
        elif isinstance(node, ast.AnnAssign) and node.value is not None and isinstance(node.target, ast.Name) and node.target.id in names:
            st[node.target.id] = reg(node.value)
        elif isinstance(node, ast.AugAssign) and isinstance(node.target, ast.Name) and node.target.id in names:
            st[node.target.id] = reg(node)
        return [tuple(sorted(st.items(), key=lambda kv: kv[0]))]

    init = tuple(sorted((a.arg, 'param') for a in fn.args.args + fn.args.kwonlyargs if a.arg in names))
    w = PathWalker(transfer)
    w.run(fn, init)
    out = {}
    for k, v in uses.items():
        out[k] = {defs_by_id.get(d, d) for d in v}
    return out


def enclosing_tests(parents, node, stop=None):
    """Only the tests of *enclosing* if/while/ifexp constructs: [(test, polarity, owner node)]."""
    out = []
    cur = node
    while cur in parents and cur is not stop:
        p = parents[cur]
        if isinstance(p, (ast.If, ast.While)):
            if cur in p.body:
                out.append((p.test, True, p))
            elif cur in p.orelse and isinstance(p, ast.If):
                out.append((p.test, False, p))
        elif isinstance(p, ast.IfExp):
            if cur is p.body:
                out.append((p.test, True, p))
            elif cur is p.orelse:
                out.append((p.test, False, p))
        if isinstance(p, (ast.FunctionDef, ast.AsyncFunctionDef, ast.Lambda)):
            break
        cur = p
    return out


def name_deps(fn: ast.AST, seeds: Dict[str, Set[str]], source_of=None) -> Dict[str, Set[str]]:
    """Flow-insensitive dependence closure over the local names of `fn`.

    dep[x] = set of seed labels x may depend on.  Handles assignment (names, tuples, starred), augmented and annotated
    assignment, walrus, for-targets (from the iterable), with-as, comprehension variables, and mutation through a
    method call or a subscript/attribute store on a local (`x.append(e)`, `x[i] = e`, `x.f = e` make x depend on e).
    `source_of(node)` may return extra labels for an expression node (e.g. a particular call).
    """
    dep: Dict[str, Set[str]] = {k: set(v) for k, v in seeds.items()}

    def labels(e) -> Set[str]:
        out: Set[str] = set()
        for x in ast.walk(e):
            if isinstance(x, ast.Name) and x.id in dep:
                out |= dep[x.id]
            if source_of is not None:
                extra = source_of(x)
                if extra:
                    out |= set(extra)
        return out

    def bind(target, labs) -> bool:
        ch = False
        for t in ast.walk(target):
            if isinstance(t, ast.Name):
                cur = dep.setdefault(t.id, set())
                if not labs <= cur:
                    cur |= labs
                    ch = True
        return ch

    def base_name(t):
        while isinstance(t, (ast.Subscript, ast.Attribute)):
            t = t.value
        return t if isinstance(t, ast.Name) else None
    changed = True
    rounds = 0
    while changed and rounds < 20:
        changed = False
        rounds += 1
        for n in ast.walk(fn):
            if isinstance(n, ast.Assign):
                labs = labels(n.value)
                for t in n.targets:
                    if isinstance(t, (ast.Subscript, ast.Attribute)):
                        b = base_name(t)
                        if b is not None and b.id != 'self' and labs:
                            changed |= bind(b, labs | labels(t))
                    else:
                        if labs:
                            changed |= bind(t, labs)
            elif isinstance(n, ast.AugAssign):
                labs = labels(n.value)
                b = base_name(n.target) if not isinstance(n.target, ast.Name) else n.target
                if b is not None and labs and b.id != 'self':
                    changed |= bind(b, labs)
            elif isinstance(n, ast.AnnAssign) and n.value is not None:
                labs = labels(n.value)
                if labs:
                    changed |= bind(n.target, labs)
            elif isinstance(n, ast.NamedExpr):
                labs = labels(n.value)
                if labs:
                    changed |= bind(n.target, labs)
            elif isinstance(n, (ast.For, ast.AsyncFor)):
                labs = labels(n.iter)
                if labs:
                    changed |= bind(n.target, labs)
            elif isinstance(n, ast.comprehension):
                labs = labels(n.iter)
                if labs:
                    changed |= bind(n.target, labs)
            elif isinstance(n, ast.withitem) and n.optional_vars is not None:
                labs = labels(n.context_expr)
                if labs:
                    changed |= bind(n.optional_vars, labs)
            elif isinstance(n, ast.Call) and isinstance(n.func, ast.Attribute):
                b = base_name(n.func.value)
                if b is not None and b.id != 'self' and n.func.attr in ('append', 'extend', 'add', 'update', 'insert', 'setdefault', '__setitem__', 'appendleft'):
                    labs = set()
                    for a in list(n.args) + [k.value for k in n.keywords]:
                        labs |= labels(a)
                    if labs:
                        changed |= bind(b, labs)
    return dep


def loop_index_and_bound(loop: ast.For):
    """(index variable name, bound expression) of `for i in range(N)` / `for i, x in enumerate(xs)` (bound = len(xs)); else None"""
    it = loop.iter
    if isinstance(it, ast.Call) and isinstance(it.func, ast.Name):
        if it.func.id == 'range' and len(it.args) == 1 and isinstance(loop.target, ast.Name):
            return loop.target.id, it.args[0]
        if it.func.id == 'enumerate' and it.args and isinstance(loop.target, ast.Tuple) and isinstance(loop.target.elts[0], ast.Name):
            return loop.target.elts[0].id, ast.Call(func=ast.Name(id='len', ctx=ast.Load()), args=[it.args[0]], keywords=[])
    return None


def is_all_but_last_test(test: ast.AST, loop: ast.For) -> bool:
    """does `test` contain the conjunct  <index> < <bound> - 1  for this loop (true on every iteration but the last)?"""
    ib = loop_index_and_bound(loop)
    if ib is None:
        return False
    idx, bound = ib
    want = ast.dump(bound)
    for atom, pol in conjuncts(test, True):
        if pol and isinstance(atom, ast.Compare) and len(atom.ops) == 1 and isinstance(atom.ops[0], ast.Lt) \
                and isinstance(atom.left, ast.Name) and atom.left.id == idx:
            r = atom.comparators[0]
            if isinstance(r, ast.BinOp) and isinstance(r.op, ast.Sub) and isinstance(r.right, ast.Constant) and r.right.value == 1 and ast.dump(r.left) == want:
                return True
    return False
