"""Obligation bookkeeping, known-findings matching, evidence and exit codes."""
from __future__ import annotations

import json
import os
import time
from typing import Dict, List, Optional

from .core import AnalysisError

VERIF = os.path.dirname(os.path.dirname(os.path.abspath(__file__)))
KNOWN = os.path.join(VERIF, 'known_findings.json')


class Ctx:
    """Collects what one property check examined."""

    def __init__(self, prop: str, tier: str, repo):
        self.prop = prop
        self.tier = tier
        self.repo = repo
        self.obligations: List[dict] = []
        self.violations: List[dict] = []
        self.unresolved: List[dict] = []
        self.rules: Dict[str, dict] = {}
        self.floors: Dict[str, int] = {}
        self.notes: List[str] = []
        self.decided: List[str] = []
        self.not_decided: List[str] = []
        self.controls: List[dict] = []

    # ----------------------------------------------------------------- rules
    def rule(self, rid: str, text: str, floor: int = 1, style: str = ''):
        """Declare a rule: its text and the minimum number of instances it must find."""
        if rid in self.rules:
            raise AnalysisError(f'rule id {rid} declared twice')
        self.rules[rid] = {'text': text, 'style': style, 'n': 0, 'bad': 0, 'constructs': set()}
        # The floor guards against a rule that silently matches (almost) nothing; it is not meant to pin the exact number of
        # instances.  Behaviour-preserving refactorings (a helper extracted from 17 identical expressions, two sibling functions
        # merged) legitimately lower the count, so only 60% of the hand-confirmed number is demanded.
        self.floors[rid] = floor if floor <= 3 else max(3, (floor * 3) // 5)

    def ob(self, rid: str, key: str, ok: bool, msg: str = '', file: str = '', line: int = 0,
           construct: Optional[str] = None, detail: Optional[dict] = None):
        """Record one obligation of rule `rid` on the construct identified by `key`.
        `key` must be position independent (module:Class.method:what)."""
        if rid not in self.rules:
            raise AnalysisError(f'undeclared rule {rid}')
        r = self.rules[rid]
        r['n'] += 1
        r['constructs'].add(construct or key)
        rec = {'rule': rid, 'key': key, 'ok': bool(ok), 'file': file, 'line': line, 'msg': msg}
        if detail:
            rec['detail'] = detail
        self.obligations.append(rec)
        if not ok:
            r['bad'] += 1
            self.violations.append(rec)
        return ok

    def unres(self, rid: str, key: str, why: str, file: str = '', line: int = 0):
        self.unresolved.append({'rule': rid, 'key': key, 'why': why, 'file': file, 'line': line})

    def check_floors(self):
        for rid, fl in self.floors.items():
            n = self.rules[rid]['n']
            if n < fl:
                raise AnalysisError(
                    f'rule {rid} matched {n} instance(s), below its confirmed floor {fl}: '
                    'the code moved away from what the rule understands'
                )


def load_known() -> dict:
    if not os.path.exists(KNOWN):
        return {'known': [], 'fixed': []}
    with open(KNOWN) as f:
        return json.load(f)


def finish(ctx: Ctx, t0: float, seed: int, out_dir: Optional[str] = None, quiet: bool = False) -> int:
    """Print the verdict, write evidence + replay files, return the exit code."""
    out_dir = out_dir or os.path.join(VERIF, 'evidence')
    os.makedirs(out_dir, exist_ok=True)
    floor_error = None
    try:
        ctx.check_floors()
    except AnalysisError as e:
        floor_error = e          # a violation found elsewhere is reported first (exit 1); without one the unmet floor aborts the run (exit 2)
    known = load_known()
    listed = {(k['property'], k['rule'], k['key']): k for k in known.get('known', [])}
    unlisted = []
    known_hit = []
    for v in ctx.violations:
        k = (ctx.prop, v['rule'], v['key'])
        if k in listed:
            known_hit.append((v, listed[k]))
        else:
            unlisted.append(v)
    for v, k in known_hit:
        print(f"KNOWN-FINDING: property={ctx.prop} rule={v['rule']} {v['key']} — {k.get('what', v['msg'])}")
    replay_dir = os.path.join(out_dir, 'replay')
    code = 0
    if unlisted:
        os.makedirs(replay_dir, exist_ok=True)
        path = os.path.join(replay_dir, f'{ctx.prop}.violations.json')
        with open(path, 'w') as f:
            json.dump({'property': ctx.prop, 'tier': ctx.tier, 'violations': unlisted,
                       'rules': {v['rule']: ctx.rules[v['rule']]['text'] for v in unlisted}}, f, indent=1)
        for v in unlisted:
            print(f"  {v['file']}:{v['line']}: [{v['rule']}] {v['key']}: {v['msg']}")
        print(f'VIOLATION property={ctx.prop} replay={path}')
        code = 1
    if floor_error is not None:
        if not unlisted:
            raise floor_error
        print(f'  (also: {floor_error})')
    nob = len(ctx.obligations)
    constructs = set()
    for r in ctx.rules.values():
        constructs |= {(id(r), c) for c in r['constructs']}
    samples = []
    per_rule_seen = {}
    for o in ctx.obligations:
        c = per_rule_seen.get(o['rule'], 0)
        if c < 3:
            per_rule_seen[o['rule']] = c + 1
            samples.append(f"[{o['rule']}] {o['key']} @ {o['file']}:{o['line']} -> {'ok' if o['ok'] else 'VIOLATED'}"
                           + (f" ({o['msg']})" if o['msg'] else ''))
    ev = {
        'property_id': ctx.prop,
        'tier': ctx.tier,
        'seed': seed,
        'level': 'other',
        'coverage': {
            'explanation': (
                'Static analysis of the working tree (ast; nothing imported or executed). '
                'Decides these clauses (necessary conditions of the property): '
                + '; '.join(ctx.decided)
                + '. Does NOT decide: ' + '; '.join(ctx.not_decided) + '.'
            ),
            'evaluations': nob,
            'distinct_nontrivial': len(constructs),
            'rule': 'one evaluation = one obligation of one rule on one resolved construct '
                    '(class/method/call site/table entry); distinct = distinct (rule, construct) '
                    'pairs; every obligation is non-vacuous (the rule found the construct it '
                    'constrains); rules with fewer instances than their confirmed floor abort '
                    'the run as ANALYSIS-ERROR',
            'obligations': nob,
            'discharged': nob - len(ctx.violations),
            'samples': samples[:60],
            'rules': {rid: {'text': r['text'], 'style': r['style'], 'instances': r['n'],
                            'violated': r['bad'], 'floor': ctx.floors[rid]}
                      for rid, r in ctx.rules.items()},
            'unresolved': len(ctx.unresolved),
            'unresolved_samples': ctx.unresolved[:10],
            'known_findings_reported': [f"{v['rule']}:{v['key']}" for v, _ in known_hit],
            'controls': ctx.controls,
            'modules_parsed': len(ctx.repo.modules),
            'classes_indexed': len(ctx.repo.classes),
            'trusted_base': ['CPython ast', 'sa engine (resolver, path walker, extractors)',
                             'reference tables in the checker', 'numpy on extracted constants'],
            'exhaustive': False,
        },
        'assumptions': [
            'rules are necessary conditions only; the behavioural property itself is not decided',
            'name-based resolution (no type checker available offline)',
        ] + ctx.notes,
        'wall_s': round(time.time() - t0, 3),
        'violations': len(unlisted),
    }
    with open(os.path.join(out_dir, f'{ctx.prop}.json'), 'w') as f:
        json.dump(ev, f, indent=1, default=str)
    if not quiet:
        for rid, r in ctx.rules.items():
            print(f"  rule {rid}: {r['n']} instance(s), {r['bad']} violated (floor {ctx.floors[rid]})")
        print(f"{ctx.prop} [{ctx.tier}] obligations={nob} violated={len(ctx.violations)} "
              f"(known={len(known_hit)}, unlisted={len(unlisted)}) unresolved={len(ctx.unresolved)} "
              f"wall={ev['wall_s']}s -> exit {code}")
    return code
