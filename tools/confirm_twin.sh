#!/bin/bash
# usage: confirm_twin.sh <PID> <t1|t2>   checks /tmp/wt/out6/<PID>/<t> (check.py exits 0 clean and refactored; neighbouring tests are the reviewer's) and stores it as seeded/twins/<PID>-<t>/
pid=$1; t=$2; src=${TWIN_OUT:-/tmp/wt/out6}/$pid/$t; wt=/tmp/twincheck_$pid$t
[ -f $src/patch.diff ] || { echo "no patch"; exit 2; }
git -C /repo worktree add --detach $wt HEAD >/dev/null 2>&1 || { echo "worktree failed"; exit 2; }
PP=$wt/cirq-core:$wt/cirq-google:$wt/cirq-ionq:$wt/cirq-aqt:$wt/cirq-pasqal
cd $wt
clean=0; [ -f $src/check.py ] && { PYTHONPATH=$PP timeout 900 /venv/bin/python $src/check.py >/dev/null 2>&1; clean=$?; }
if ! git apply $src/patch.diff 2>/tmp/twin_apply.err; then echo "$pid $t: patch does not apply: $(head -c 200 /tmp/twin_apply.err)"; cd /; git -C /repo worktree remove --force $wt; exit 3; fi
ref=0; [ -f $src/check.py ] && { PYTHONPATH=$PP timeout 900 /venv/bin/python $src/check.py >/dev/null 2>&1; ref=$?; }
# the unit tests next to the changed files must still pass
files=$(grep '^+++ b/' $src/patch.diff | sed 's#^+++ b/##' | grep '\.py$' | sed 's#\.py$#_test.py#' | while read f; do [ -f $f ] && echo $f; done | tr '\n' ' ')
tests=0; [ -n "$files" ] && { PYTHONPATH=$PP timeout 1800 /venv/bin/python -m pytest -q -p no:cacheprovider $files > /tmp/twin_$pid$t.test.log 2>&1; tests=$?; }
cd /; git -C /repo worktree remove --force $wt
echo "$pid $t: check clean=$clean refactored=$ref neighbouring tests exit=$tests ($files)"
if [ "$clean" = "$ref" ] && [ "$tests" = 0 ]; then
  d=/verif/seeded/twins/$pid-$t; mkdir -p $d; cp $src/patch.diff $d/; [ -f $src/check.py ] && cp $src/check.py $d/; [ -f $src/notes.md ] && cp $src/notes.md $d/
  echo "{\"check_clean\": $clean, \"check_refactored\": $ref, \"neighbouring_tests_exit\": $tests, \"repo_head\": \"$(git -C /repo rev-parse --short HEAD)\"}" > $d/confirm.json
  echo "  CONFIRMED -> $d"
else echo "  NOT CONFIRMED"; fi
