#!/bin/bash
# runs every claimed check (tier $1, default quick) against /repo and rewrites /verif/evidence/*.json
tier=${1:-quick}
cd /verif
for pid in $(python3 -c "import json;print(' '.join(c['property_id'] for c in json.load(open('/verif/MANIFEST.json'))['checks']))"); do
  /venv/bin/python /verif/sa/check.py $pid --tier $tier 2>&1 | grep -v WARNING | grep -E "VIOLATION|ANALYSIS-ERROR|KNOWN-FINDING|-> exit" | cut -c1-200
done
