#!/usr/bin/env python3
"""Runs every claimed check against every behaviour-preserving refactoring under seeded/twins/<name>/patch.diff (each applied in its own
scratch worktree of /repo HEAD, removed afterwards).  A twin must leave every check at exit 0: a violation or an analysis abort on a
twin is a false alarm of the checker.  Writes seeded/TWINS.json.

usage: twin_matrix.py [--only name,...] [--jobs 8]
"""
import argparse
import concurrent.futures as cf
import json
import os
import re
import subprocess

VERIF = os.path.dirname(os.path.dirname(os.path.abspath(__file__)))
TW = os.path.join(VERIF, 'seeded', 'twins')


def sh(cmd):
    return subprocess.run(cmd, shell=True, capture_output=True, text=True)


def run_one(name, pids):
    d = os.path.join(TW, name)
    wt = f'/tmp/twinmx_{name}'
    sh(f'git -C /repo worktree remove --force {wt}')
    r = sh(f'git -C /repo worktree add --detach {wt} HEAD')
    if r.returncode != 0:
        return name, {'error': 'worktree: ' + r.stderr[-200:]}
    try:
        r = sh(f'git -C {wt} apply {d}/patch.diff')
        if r.returncode != 0:
            return name, {'error': 'patch does not apply to HEAD: ' + r.stderr[-300:]}
        alarms = {}
        for pid in pids:
            out = f'/tmp/twinmx_ev_{name}'
            r = sh(f'/venv/bin/python {VERIF}/sa/check.py {pid} --root {wt} --out {out}')
            txt = r.stdout + r.stderr
            if r.returncode == 1:
                alarms[pid] = sorted(set(f'{a} {b.strip()[:110]}' for a, b in re.findall(r'\[([A-Z]\d\d[\w.]*)\] ([^:]+)', txt)))[:6]
            elif r.returncode != 0:
                m = re.search(r'ANALYSIS-ERROR[^\n]*', txt)
                alarms[pid] = [m.group(0)[:250] if m else f'exit {r.returncode}']
            sh(f'rm -rf {out}')
        return name, {'alarms': alarms}
    finally:
        sh(f'git -C /repo worktree remove --force {wt}')


def main():
    ap = argparse.ArgumentParser()
    ap.add_argument('--only', default='')
    ap.add_argument('--jobs', type=int, default=8)
    a = ap.parse_args()
    man = json.load(open(os.path.join(VERIF, 'MANIFEST.json')))
    pids = [c['property_id'] for c in man['checks']]
    names = sorted(n for n in os.listdir(TW) if os.path.exists(os.path.join(TW, n, 'patch.diff')))
    if a.only:
        names = [n for n in names if n in a.only.split(',')]
    res = {}
    with cf.ThreadPoolExecutor(max_workers=a.jobs) as ex:
        for name, r in ex.map(lambda n: run_one(n, pids), names):
            res[name] = r
            print(name, 'silent' if not r.get('alarms') and 'error' not in r else ('ERR ' + r.get('error', '')[:80] if 'error' in r else f'FALSE ALARM {r["alarms"]}'), flush=True)
    mp = os.path.join(VERIF, 'seeded', 'TWINS.json')
    prev = json.load(open(mp)) if os.path.exists(mp) and a.only else {}
    prev.update(res)
    json.dump(prev, open(mp, 'w'), indent=1, sort_keys=True)
    print(sum(1 for r in prev.values() if not r.get('alarms') and 'error' not in r), '/', len(prev), 'twins leave every check silent')


if __name__ == '__main__':
    main()
