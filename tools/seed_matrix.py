#!/usr/bin/env python3
"""Runs every claimed check against every seeded mutation (each applied in its own scratch worktree of /repo HEAD,
removed afterwards) and records which rules fire.  Writes seeded/<id>/meta.json and seeded/MATRIX.json.

usage: seed_matrix.py [--only C05-m1,...] [--jobs 8]
"""
import argparse
import concurrent.futures as cf
import json
import os
import re
import subprocess
import sys

VERIF = os.path.dirname(os.path.dirname(os.path.abspath(__file__)))
SEEDED = os.path.join(VERIF, 'seeded')


def sh(cmd, **kw):
    return subprocess.run(cmd, shell=True, capture_output=True, text=True, **kw)


def run_one(name, pids):
    d = os.path.join(SEEDED, name)
    wt = f'/tmp/seedmx_{name}'
    sh(f'git -C /repo worktree remove --force {wt}')
    r = sh(f'git -C /repo worktree add --detach {wt} HEAD')
    if r.returncode != 0:
        return name, {'error': 'worktree: ' + r.stderr[-200:]}
    try:
        r = sh(f'git -C {wt} apply {d}/patch.diff')
        if r.returncode != 0:
            return name, {'error': 'patch does not apply to HEAD: ' + r.stderr[-300:]}
        fired = {}
        errors = {}
        for pid in pids:
            out = f'/tmp/seedmx_ev_{name}'
            r = sh(f'/venv/bin/python {VERIF}/sa/check.py {pid} --root {wt} --out {out}')
            txt = r.stdout + r.stderr
            if r.returncode == 1:
                rules = sorted(set(re.findall(r'\[([A-Z]\d\d[\w.]*)\] ([^:]+)', txt)))
                fired[pid] = [f'{a} {b.strip()[:110]}' for a, b in rules][:6]
            elif r.returncode == 2:
                m = re.search(r'ANALYSIS-ERROR[^\n]*', txt)
                errors[pid] = m.group(0)[:200] if m else 'exit 2'
            sh(f'rm -rf {out}')
        return name, {'fired': fired, 'analysis_errors': errors}
    finally:
        sh(f'git -C /repo worktree remove --force {wt}')


def main():
    ap = argparse.ArgumentParser()
    ap.add_argument('--only', default='')
    ap.add_argument('--jobs', type=int, default=8)
    a = ap.parse_args()
    man = json.load(open(os.path.join(VERIF, 'MANIFEST.json')))
    pids = [c['property_id'] for c in man['checks']]
    names = sorted(n for n in os.listdir(SEEDED) if os.path.isdir(os.path.join(SEEDED, n)) and os.path.exists(os.path.join(SEEDED, n, 'patch.diff')))
    if a.only:
        names = [n for n in names if n in a.only.split(',')]
    results = {}
    with cf.ThreadPoolExecutor(max_workers=a.jobs) as ex:
        for name, res in ex.map(lambda n: run_one(n, pids), names):
            results[name] = res
            own = name.split('-')[0]
            if own == 'R':
                pf = os.path.join(SEEDED, name, 'property.txt')
                own = open(pf).read().strip() if os.path.exists(pf) else 'R'
            print(name, 'DETECTED' if res.get('fired') else ('ANALYSIS-ERROR' if res.get('analysis_errors') else ('ERR ' + res.get('error', '')[:80] if 'error' in res else 'missed')),
                  sorted(res.get('fired', {})), flush=True)
            # meta.json
            d = os.path.join(SEEDED, name)
            notes = open(os.path.join(d, 'notes.md')).read() if os.path.exists(os.path.join(d, 'notes.md')) else ''
            conf = json.load(open(os.path.join(d, 'confirm.json'))) if os.path.exists(os.path.join(d, 'confirm.json')) else {}
            files = re.findall(r'^\+\+\+ b/(.+)$', open(os.path.join(d, 'patch.diff')).read(), re.M)
            meta = {
                'property': own,
                'files_changed': files,
                'needs_to_manifest': (re.search(r'(?is)(needs?|what it needs|manifest)[^\n]*\n(.{0,600})', notes) or [None, None, ''])[2].strip()[:600] or notes[:400],
                'author': ('reverse of a fix: commit of /repo (regression control, not an independent seed)' if name.startswith('R-') else
                           'independent sub-agent given only the property text and a scratch worktree'),
                'confirmed_by_me': {
                    'how': 'tools/confirm_seed.sh: fresh worktree of /repo HEAD; demo.py on clean tree (exit 0 expected), patch applied, demo.py again (non-zero expected), '
                           'full baseline pytest command with -n 6 (>= 2478 passed expected); worktree removed',
                    **conf,
                },
                'checks_run': [f'/venv/bin/python /verif/sa/check.py {p} --root <scratch worktree with the patch>' for p in pids],
                'detected': bool(res.get('fired')),
                'detected_by': res.get('fired', {}),
                'analysis_errors': res.get('analysis_errors', {}),
            }
            with open(os.path.join(d, 'meta.json'), 'w') as f:
                json.dump(meta, f, indent=1)
    prev = {}
    mp = os.path.join(SEEDED, 'MATRIX.json')
    if os.path.exists(mp) and a.only:
        prev = json.load(open(mp))
    prev.update(results)
    with open(mp, 'w') as f:
        json.dump(prev, f, indent=1, sort_keys=True)
    ind = {k: r for k, r in prev.items() if not k.startswith('R-')}
    reg = {k: r for k, r in prev.items() if k.startswith('R-')}
    det = sum(1 for r in ind.values() if r.get('fired'))
    print(f'{det}/{len(ind)} independent seeded mutations detected by some check')
    if reg:
        print(f'{sum(1 for r in reg.values() if r.get("fired") or r.get("analysis_errors"))}/{len(reg)} reversed fixes reported again (violation or analysis abort)')


if __name__ == '__main__':
    main()
