#!/bin/bash
# usage: try_mutant.sh <patch.diff> <PID> [PID...]   - applies the patch to /repo, runs the quick checks, restores /repo
patch=$1; shift
cd /repo || exit 9
if ! git diff --quiet; then echo "/repo dirty, refusing"; exit 9; fi
if ! git apply "$patch" 2>/tmp/apply.err; then echo "APPLY-FAILED $(head -c 300 /tmp/apply.err)"; exit 8; fi
for pid in "$@"; do
  /venv/bin/python /verif/sa/check.py $pid --out /tmp/ev_mut 2>&1 | grep -v WARNING | grep -E "VIOLATION|ANALYSIS-ERROR|^  [a-z-]+/|-> exit" | cut -c1-300
done
git checkout -- . ; git clean -fdq -- cirq-core cirq-google cirq-ionq cirq-aqt cirq-pasqal 2>/dev/null
