#!/bin/bash
# usage: confirm_seed.sh <PID> <k>   confirms /tmp/wt/out/<PID>/m<k> in a scratch worktree of /repo HEAD and, if confirmed,
# stores it as /verif/seeded/<PID>-m<k>/ {patch.diff, demo.py, notes.md, meta.json (partial)}
pid=$1; k=$2; src=${SEED_OUT:-/tmp/wt/out}/$pid/m$k; wt=/tmp/seedcheck_$pid$k
[ -f $src/patch.diff ] || { echo "no patch"; exit 2; }
git -C /repo worktree add --detach $wt HEAD >/dev/null 2>&1 || { echo "worktree failed"; exit 2; }
PP=$wt/cirq-core:$wt/cirq-google:$wt/cirq-ionq:$wt/cirq-aqt:$wt/cirq-pasqal
cd $wt
PYTHONPATH=$PP timeout 900 /venv/bin/python $src/demo.py >/tmp/seed_$pid$k.clean.log 2>&1; clean=$?
if ! git apply $src/patch.diff 2>/tmp/seed_apply.err; then echo "$pid m$k: patch does not apply to HEAD: $(head -c 200 /tmp/seed_apply.err)"; git -C /repo worktree remove --force $wt; exit 3; fi
PYTHONPATH=$PP timeout 900 /venv/bin/python $src/demo.py >/tmp/seed_$pid$k.mut.log 2>&1; mut=$?
timeout 1500 /venv/bin/python -m pytest -q -p no:cacheprovider --timeout=900 --continue-on-collection-errors -n 6 > /tmp/seed_$pid$k.base.log 2>&1
tail -1 /tmp/seed_$pid$k.base.log > /tmp/seed_$pid$k.base.tail
passed=$(grep -oE "[0-9]+ passed" /tmp/seed_$pid$k.base.tail | grep -oE "[0-9]+")
failed=$(grep -oE "[0-9]+ failed" /tmp/seed_$pid$k.base.tail | grep -oE "[0-9]+")
cd /; git -C /repo worktree remove --force $wt
echo "$pid m$k: demo clean exit=$clean, mutated exit=$mut, baseline passed=$passed failed=$failed"
if [ "$clean" = 0 ] && [ "$mut" != 0 ] && [ "${passed:-0}" -ge 2478 ]; then
  d=/verif/seeded/$pid-m$k; mkdir -p $d; cp $src/patch.diff $src/demo.py $d/; [ -f $src/notes.md ] && cp $src/notes.md $d/
  echo "{\"clean_exit\": $clean, \"mutated_exit\": $mut, \"baseline_passed\": $passed, \"baseline_failed\": ${failed:-0}, \"repo_head\": \"$(git -C /repo rev-parse --short HEAD)\"}" > $d/confirm.json
  echo "  CONFIRMED -> $d"
else
  echo "  NOT CONFIRMED"
fi
